"""C05 - at most one record per query, the best one, in query-id order (structural clauses).

  C05.1  every list written to a main / first-pass / second-pass file has passed the one-per-query filter (R-FLOW)
  C05.2  the filter has the right shape: group by query id after an ascending sort on the same key, confidence
         descending within a query, first of each group; repo-wide: groupby input sorted by the groupby key
  C05.3  the per-query winner among the candidates is ARGMAX(confidence) with a None default, over all candidates
  C05.4  seeds are the top `count` peaks by score, descending (shared with C16.1)
  C05.5  mode 'best' returns its rows sorted by query id
Declined: exactly one record per aligned query in 'best' mode; ties.
"""
from __future__ import annotations

import ast

from ..loader import AnalysisError
from .. import terms as T
from ..terms import C, V
from ..rules.common import explore, where, short, self_attr, path_terms, parallel_map_site
from ..rules.order import as_arg_extreme, as_topk, as_one_per_key, groupby_sites, sort_spec, key_path, key_tuple
from ..rules.modes import declared_modes, mode_behaviour, multipass_execute


def filter_fn(ck):
    """the one-per-query filter = the function AlignmentResults.create applies to its rows"""
    p = ck.ctx.p
    create = p.find_method("AlignmentResults", "create")
    rets = [pa for pa in explore(ck, create) if pa.outcome == "return"]
    if len(rets) != 1 or rets[0].value[0] != "new":
        raise AnalysisError(f"{create.where}: AlignmentResults.create expected to return one constructor call")
    rows = dict(rets[0].value[2]).get("rows")
    return create, rows, rets[0]


def worker_gives_up_only_without_seeds(ck, rule):
    """The worker answers None for a query only when the selection handed back no seed at all. Giving a query up because of what
    *one* reference looks like (`any(<test on r> for r in referenceMaps)`) drops the seeds it has on all the other references."""
    from ..rules.common import parallel_map_site
    ck.clause(rule, "the worker gives a query up (returns None) only when no seed was selected over all references and both strands")
    fn, call, mapname, wl, worker = parallel_map_site(ck.ctx)
    refs = V(worker.call_params()[0].name) if worker.call_params() else None
    n = 0
    for pa in explore(ck, worker, unroll=(0, 1)):
        if pa.outcome != "return" or pa.value != T.NONE:
            continue
        n += 1
        conds = [(c, tv) for c, tv, _ in pa.state.assumptions]
        if not conds:
            raise AnalysisError(f"{where(worker, pa.node)}: the worker returns None unconditionally")
        c, tv = conds[-1]
        c0, pos = T.positive(T.as_bool(c))
        truthy = tv if pos else (not tv)
        no_seeds = (not truthy) and any(x[0] == "app" and x[1].endswith("selectPeaks") for x in T.subterms(c0))
        if no_seeds and len(conds) == 1:
            ck.ok(rule, short(worker) + ":gives-up", where(worker, pa.node), "None only when the selection is empty", T.show(c)[:120])
            continue
        if no_seeds:
            continue                      # reached past other tests: those are judged on their own None path
        some_ref = truthy and c0[0] == "call" and c0[1] == "any" and refs is not None and any(
            x[0] == "comp" and any(it == refs for it, _ in x[3]) for x in T.subterms(c0))
        if some_ref:
            ck.violation(rule, short(worker) + ":gives-up", where(worker, pa.node),
                         "the query is given up as soon as *one* reference fails a test (`any(... for r in referenceMaps)`): its seeds on "
                         "every other reference are never looked at - with several reference contigs, one short contig removes every "
                         "molecule longer than it from the output", found=T.show(c)[:200],
                         required="None only when selectPeaks(...) over all references is empty")
        else:
            raise AnalysisError(f"{where(worker, pa.node)}: the worker gives a query up under a condition that is not understood: {T.show(c)[:160]}")
    ck.floor(f"{rule} None paths of the worker", n, 1)


def run(ck):
    ctx = ck.ctx
    p = ctx.p
    ck.clause("C05.1", "every written row list passed the one-per-query filter")
    ck.clause("C05.2", "filter shape: groupby(query id) over sort(query id asc) over sort(confidence desc), first of group")
    ck.clause("C05.3", "per-query winner = ARGMAX(confidence) over all candidates, None when there is none")
    ck.clause("C05.4", "seed peaks = top `count` by score, descending")
    ck.clause("C05.5", "'best' mode rows are sorted by query id")
    ck.clause("C05.6", "'best' mode: a query's single-pass record is left out exactly when the query has a joined record")
    ck.clause("C05.7", "every query (and every second-pass fragment) is offered for alignment: one parallel task per query (as C10.6)")
    from ..report import RuleView
    from .c10 import per_query_tasks
    per_query_tasks(RuleView(ck, {"C10.6": "C05.7"}))
    ck.clause("C05.8", "the candidates of a query come from both strands of every reference: each strand's seeds are offered iff "
                       "that strand has peaks (as C11.4 / C11.7)")
    from . import c11
    c11.run(RuleView(ck, {"C11.7": "C05.8"}))

    create, rows_term, cpath = filter_fn(ck)
    if rows_term is None:
        raise AnalysisError(f"{create.where}: rows argument of AlignmentResults not bound")
    if rows_term[0] != "app":
        ck.violation("C05.1", "AlignmentResults.create:filter", where(create, cpath.node),
                     "AlignmentResults.create stores its rows without the one-per-query filter",
                     found=T.show(rows_term)[:160], required="filterOutSubsequentAlignmentsForSingleQuery(rows)")
        return
    filt = p.get_function(rows_term[1])
    ck.judge(dict(rows_term[3]) and list(dict(rows_term[3]).values())[0] == V("rows"), "C05.1", "AlignmentResults.create:filter",
             where(create, cpath.node), f"create applies {short(filt)} to exactly the rows it was given",
             found=T.show(rows_term)[:160])

    # ---- C05.1 sinks
    run_fn = p.get_function("src.program:Program.run")
    n_sinks = 0
    for pa in explore(ck, run_fn, unroll=(0, 1)):
        for e in pa.events:
            if e.kind == "call" and e.term[0] == "app" and e.term[1].endswith("XmapReader.writeAlignments"):
                n_sinks += 1
                a = dict(e.term[3])
                res = a.get("alignmentResults")
                ok = res is not None and res[0] == "app" and res[1] == create.qualname
                ck.judge(ok, "C05.1", "Program.run:main-file", where(run_fn, e.node),
                         "the main file is written from AlignmentResults.create(...) (filtered)",
                         found=T.show(res)[:200] if res else "None", required="AlignmentResults.create(...)")
                if ok:
                    rr = dict(res[3]).get("rows")
                    src_ok = rr is not None and rr[0] == "app" and rr[1].endswith(".execute")
                    ck.judge(src_ok, "C05.1", "Program.run:main-rows", where(run_fn, e.node),
                             "rows of the main file are the coordinator's result", found=T.show(rr)[:160] if rr else "None")
    ck.floor("C05.1 writeAlignments sinks in Program.run", n_sinks, 1)
    modes, default, _ = declared_modes(ck)
    execute = multipass_execute(ck)
    n_saves = 0
    for mode in modes:
        mb = mode_behaviour(ck, mode, execute)
        for rows, num, e, pa in mb.saves:
            n_saves += 1
            construct = f"execute[{mode}]:file_{T.show(num)}"
            if mode == "joined":
                ck.ok("C05.1", construct, where(execute, e.node), "the _1 file of mode 'joined' holds the un-joined rows of "
                      "both passes (excluded by the property)")
                continue
            ok = rows is not None and rows[0] == "app" and rows[1] == filt.qualname
            ck.judge(ok, "C05.1", construct, where(execute, e.node),
                     f"additional file of mode '{mode}' is written from a filtered list",
                     found=T.show(rows)[:200] if rows else "None", required=f"{short(filt)}(...)")
    ck.floor("C05.1 additional-output sinks over all modes", n_saves, 4)
    # saveAdditionalOutput itself builds AlignmentResults without the filter -> its argument is what counts (above)

    # ---- C05.2 filter shape
    rets = [pa for pa in explore(ck, filt) if pa.outcome == "return"]
    if len(rets) != 1:
        raise AnalysisError(f"{filt.where}: filter expected to have a single return")
    ft = rets[0].value
    spec = as_one_per_key(ctx, ft)
    wf = where(filt, rets[0].node)
    if spec is None:
        raise AnalysisError(f"{wf}: one-per-query filter idiom not recognised: {T.show(ft)[:200]}")
    param = V(filt.call_params()[0].name)
    probs = []
    if spec["group_key"] != ("queryId",):
        probs.append(f"groups by {spec['group_key']}")
    sorts = spec["sorts"]
    if not sorts or sorts[0] != (("queryId",), False):
        probs.append(f"outer sort is {sorts[0] if sorts else None}, not query id ascending")
    if len(sorts) < 2 or sorts[1][0] != ("confidence",):
        probs.append(f"no inner sort by confidence ({sorts[1:] if len(sorts) > 1 else 'none'})")
    else:
        take = spec["take"]
        desc = sorts[1][1]
        if take == "first" and desc is not True:
            probs.append("keeps the first of each group but confidence is sorted ascending (keeps the worst)")
        if take == "last" and desc is not False:
            probs.append("keeps the last of each group but confidence is sorted descending (keeps the worst)")
        if take not in ("first", "last"):
            probs.append(f"element taken from each group not recognised: {take}")
    if spec["input"] != param:
        probs.append(f"filters {T.show(spec['input'])[:60]} instead of its argument")
    if any(p0 is None for p0, _ in sorts) or spec["group_key"] is None:
        raise AnalysisError(f"{wf}: sort/group key not recognised in {T.show(ft)[:200]}")
    ck.judge(not probs, "C05.2", short(filt), wf, "one record per query id: the highest-confidence one, in query-id order",
             found="; ".join(probs) if probs else T.show(ft)[:200],
             required="groupby(queryId) o sort(queryId asc) o sort(confidence desc), first of each group")
    # the groupings that decide which records of a query are kept: the row-level ones (label-pair de-duplication has its own
    # rule, C01.4 / C12.5, and is no concern of this property)
    n_gb = groupby_inputs_sorted(ck, "C05.2", only_modules={"src.alignment.alignment_results", "src.workflow_coordinator",
                                                            "src.multi_pass_workflow_coordinator", "src.program"})
    ck.floor("C05.2 groupby sites of the row-level modules", n_gb, 3)

    # ---- C05.3 winner
    fn_exec, call, mapname, worker_lambda, worker = parallel_map_site(ctx)
    best = None
    wrets = [pa for pa in explore(ck, worker, unroll=(0, 1)) if pa.outcome == "return"]
    for pa in wrets:
        v = pa.value
        if v == T.NONE:
            continue
        if v[0] == "app":
            best = (ctx.p.get_function(v[1]), v, pa)
    inlined = None
    if best is None:
        # the selection helper was read through (renamed / moved / inlined): the returned expression is the selection, applied to
        # the candidate rows zip(*...)[0]
        for pa in wrets:
            v = pa.value
            if v == T.NONE:
                continue
            cands = [x for x in T.subterms(v) if x[0] == "idx" and x[2] == C(0) and x[1][0] == "call" and x[1][1] == "zip"]
            if cands:
                from types import SimpleNamespace
                inlined = (SimpleNamespace(value=T.substitute(v, {cands[0]: V("#candidates")}), node=pa.node,
                                           state=SimpleNamespace(assumptions=[])), cands[0], pa)
    if best is None and inlined is None:
        raise AnalysisError(f"{worker.where}: the worker does not return the result of a selection function")
    if best is not None:
        bfn, bapp, bpa = best
        brets = [pa for pa in explore(ck, bfn) if pa.outcome == "return"]
        bparam0 = V(bfn.call_params()[0].name)
    else:
        bfn, bapp, bpa = worker, None, inlined[2]
        brets = [inlined[0]]
        bparam0 = V("#candidates")
    guarded_none = False
    if len(brets) > 1:
        # `if not candidates: return None` in front of the selection plays the role of the None default
        def empty_guard(pa):
            conds = [(c, tv) for c, tv, _ in pa.state.assumptions]
            if pa.value != T.NONE or not conds:
                return False
            for c, tv in conds:
                c0, pos = T.positive(c)
                truth = tv if pos else (not tv)
                if truth is not False or not T.contains(c0, bparam0):
                    return False
            return True
        keep = [pa for pa in brets if not empty_guard(pa)]
        guarded_none = len(keep) < len(brets)
        brets = keep
    if len(brets) != 1:
        raise AnalysisError(f"{bfn.where}: selection function expected to have a single selecting return")
    bval = brets[0].value
    def _sorted_of_param(x):
        if not (x[0] == "call" and x[1] == "sorted" and x[2]):
            return False
        y = x[2][0]
        while y[0] == "call" and y[1] in ("list", "tuple", "iter") and len(y[2]) == 1:
            y = y[2][0]
        return y == bparam0
    if bval[0] == "select" and bval[3] == T.NONE and bval[2] == T.mk_idx(bval[1], C(0)) and _sorted_of_param(bval[1]):
        # `xs[0] if xs else None`  ==  next(iter(xs), None)
        bval = T.mk_call("next", [T.mk_call("iter", [bval[1]]), T.NONE])
    sel = as_arg_extreme(ctx, bval)
    if sel is not None and guarded_none and not sel["has_default"]:
        sel["has_default"], sel["default"] = True, T.NONE
    wb = where(bfn, brets[0].node)
    bparam = bparam0
    if sel is None:
        bv = brets[0].value
        inner = bv
        if inner[0] == "call" and inner[1] == "next" and inner[2]:
            inner = inner[2][0]
            while inner[0] == "call" and inner[1] in ("iter", "list") and len(inner[2]) == 1:
                inner = inner[2][0]
        elif inner[0] == "idx" and inner[2][0] == "c":
            inner = inner[1]
        tie = _tuple_key_selection(inner, bparam)
        if tie is not None:
            # sorted(rows, key=lambda a: (a.confidence, <tie-break>), reverse=True): still the highest confidence
            sel = {"key": ("confidence",), "kind": "max", "input": bparam, "has_default": True, "default": T.NONE}
        elif inner == bparam:
            ck.violation("C05.3", short(bfn), wb, "the candidate reported for a query is taken by its position in the list (seed-peak "
                         "order), not by its confidence", found=T.show(bv)[:160],
                         required="ARGMAX(confidence) over the candidates, default None")
            sel = {"key": ("confidence",), "kind": "max", "input": bparam, "has_default": True, "default": T.NONE, "_reported": True}
        else:
            raise AnalysisError(f"{wb}: best-candidate selection idiom not recognised: {T.show(bv)[:200]}")
    probs = []
    if sel["key"] != ("confidence",):
        probs.append(f"selects by {sel['key']}")
    if sel["kind"] != "max":
        probs.append("selects the minimum")
    sel_input = sel["input"]
    while sel_input[0] == "call" and sel_input[1] in ("list", "tuple", "iter") and len(sel_input[2]) == 1 and not sel_input[3]:
        sel_input = sel_input[2][0]           # a copy of the candidates holds the same candidates
    if sel_input != bparam:
        probs.append(f"selects from {T.show(sel['input'])[:60]}")
    if not sel["has_default"] or sel["default"] != T.NONE:
        probs.append("no None default for an empty candidate list")
    if not sel.get("_reported"):
      ck.judge(not probs, "C05.3", short(bfn), wb, "the reported candidate is the one with the highest confidence",
             found="; ".join(probs) if probs else T.show(brets[0].value)[:160],
             required="ARGMAX(confidence) over the candidates, default None")
    # the candidates handed over are all rows built from the selected peaks
    arg = (list(dict(bapp[3]).values())[0] if bapp[3] else None) if bapp is not None else inlined[1]
    ok = arg is not None and arg[0] == "idx" and arg[2] == C(0) and arg[1][0] == "call" and arg[1][1] == "zip"
    if ok:
        ck.ok("C05.3", short(worker) + ":candidates", where(worker, bpa.node),
              "the winner is chosen among the rows of all selected seed peaks", T.show(arg)[:120])
    else:
        sl = arg is not None and any(x[0] == "slice" for x in T.subterms(arg) if x is not arg or True) and arg[0] == "slice"
        if sl:
            ck.violation("C05.3", short(worker) + ":candidates", where(worker, bpa.node),
                         "only a part of the candidate rows takes part in the selection", found=T.show(arg)[:160])
        else:
            raise AnalysisError(f"{where(worker, bpa.node)}: candidate list handed to the selection not recognised: "
                                f"{T.show(arg)[:160] if arg else None}")

    # ---- C05.4 seeds
    seeds(ck, "C05.4")
    seeds_over_all_references(ck, "C05.9")
    ck.clause("C05.11", "the per-correlation pre-selection keeps the highest peaks (as C16.1): a seed that is dropped there can never "
                        "become the record, however good its alignment would be")
    from ..report import RuleView as _RV05
    from . import c16 as _c16
    _c16.run(_RV05(ck, {"C16.1": "C05.11"}, only_constructs=("createPeaks",)))
    refined_seeds(ck, "C05.12")
    worker_gives_up_only_without_seeds(ck, "C05.18")
    ck.clause("C05.17", "the files of the modes hold the records of the pass they stand for (as C08.2's mode table: _1 of 'all' is the main "
                        "file of 'separate'): second-pass rows merged into the first-pass list outside 'best' put a fragment's record "
                        "where the molecule's best first-pass candidate belongs")
    if ck.wants("C05.17"):
        from . import c08 as _c08_05b
        _c08_05b.run(_RV05(ck, {"C08.2": "C05.17"}, only_constructs=("mode-table",)))
    ck.clause("C05.16", "the seed selector the program runs with is built from --peaksCount (as C04.1): a selector left to a default "
                        "count keeps another number of seeds than the option asks for, and the best candidate can come from a seed that "
                        "was dropped")
    if ck.wants("C05.16"):
        from . import c04 as _c04_05
        _c04_05.wiring(_RV05(ck, {"C04.1": "C05.16"}, only_constructs=("PeaksSelector",)))
    ck.clause("C05.14", "every output file is created afresh (mode 'w', as C08.2 / C09.9): a file opened for appending keeps the records "
                        "of the run before - several records per query, out of order")
    from . import c08 as _c08_05
    if ck.wants("C05.14"):
        _c08_05._file_naming(ck, rule="C05.14")
    ck.clause("C05.15", "the references a query is searched on do not depend on which queries were selected: each reader call is "
                        "restricted by the ids of its own kind (as C10.3) - the best candidate is chosen over all references")
    from .c10 import id_filters as _idf05
    if ck.wants("C05.15"):
        _idf05(_RV05(ck, {"C10.3": "C05.15"}, only_constructs=("Program.__readMaps",)), "C10.3", "C10.4")
    ck.clause("C05.13", "a peak keeps the score it is given (as C16.8 / C12.7): the top-count seeds are the highest *computed* scores")
    from .c12 import stored_unconverted as _su05
    if ck.wants("C05.13"):
        _su05(_RV05(ck, {"C12.7": "C05.13"}, only_files=("src/correlation/peak.py",)), "C12.7")
    from .c08 import aliased_lists
    aliased_lists(ck, "C05.10")      # a filtered (one-per-query) list extended in place holds several records of one query again

    # ---- C05.5 best mode sorted by query id
    if "best" in modes:
        mb = mode_behaviour(ck, "best", execute)
        if not mb.returned:
            raise AnalysisError(f"{execute.where}: mode 'best' returns nothing")
        for v, pa in mb.returned:
            s = sort_spec(v)
            w = where(execute, pa.node)
            if s is None:
                if v[0] in ("concat", "app", "comp", "idx"):
                    ck.violation("C05.5", "execute[best]:order", w, "rows of mode 'best' are returned without sorting by query id",
                                 found=T.show(v)[:200], required="sorted(..., key=queryId)")
                else:
                    raise AnalysisError(f"{w}: value returned in mode 'best' not recognised: {T.show(v)[:160]}")
                continue
            _, k, desc = s
            kp = key_path(ctx, k)
            ck.judge(kp == ("queryId",) and desc is False, "C05.5", "execute[best]:order", w,
                     "rows of mode 'best' are sorted by query id ascending", found=f"key {kp}, descending={desc}",
                     required="key queryId ascending")
            # ---- C05.6 exclusion of joined queries: <row>.queryId not in [<joined row>.queryId ...]
            tests = [x for x in T.subterms(v) if x[0] in ("notin", "in")]
            ck.floor("C05.6 membership tests in the 'best' branch", len(tests), 1)
            for x in tests:
                lhs, rhs = x[1], x[2]
                la = lhs[2] if lhs[0] == "attr" else None
                ra = None
                if rhs[0] == "comp" and rhs[2][0] == "attr":
                    ra = rhs[2][2]
                elif rhs[0] == "call" and rhs[1] in ("set", "list", "frozenset", "tuple") and rhs[2] and rhs[2][0][0] == "comp" \
                        and rhs[2][0][2][0] == "attr":
                    ra = rhs[2][0][2][2]
                if la is None or ra is None:
                    raise AnalysisError(f"{w}: membership test of the 'best' branch not recognised: {T.show(x)[:200]}")
                ck.judge(la == "queryId" and ra == "queryId" and x[0] == "notin", "C05.6", "execute[best]:joined-exclusion", w,
                         "a single-pass record is left out iff its *query id* is among the query ids of the joined records",
                         found=f"<row>.{la} {'not in' if x[0] == 'notin' else 'in'} [<joined>.{ra} ...]",
                         required="<row>.queryId not in [<joined>.queryId ...]")


# groupby sites whose input is deliberately not sorted by the key: (function, reason)
GROUPBY_EXCEPTIONS = {
    # keyed by a public entry point; covers it and the private helpers reachable only from it (see rules.common.reachable_only_from)
    "AlignmentResultRow.cigarString":
        "groups *adjacent* pairs of one query label inside a list ordered by reference position (run-length style, on purpose)",
    "AlignmentRowComparer.compare":
        "diagnostic comparer: groups adjacent pairs of one query label in alignment order (outside the aligner's output path)",
}


def _groupby_exception(ctx, fn):
    from ..rules.common import reachable_only_from
    for root_short, why in GROUPBY_EXCEPTIONS.items():
        if reachable_only_from(ctx, fn, root_short):
            return why
    return None


def groupby_inputs_sorted(ck, rule, only_functions=None, only_modules=None):
    """Every itertools.groupby in src/ runs over a list that is explicitly sorted by the same key (otherwise one id forms
    several groups and 'one per key' silently becomes 'one per run')."""
    ctx = ck.ctx
    p = ctx.p
    n_gb = 0
    for fn in p.nontest_functions():
        if not fn.module.name.startswith("src.") or fn.is_lambda or "diagnostic.alignment_plot" in fn.module.name \
                or fn.module.name.startswith("src.diagnostic.plot"):
            continue
        if only_functions is not None and short(fn) not in only_functions:
            continue
        if only_modules is not None and fn.module.name not in only_modules:
            continue
        if "groupby" not in fn.module.source:
            continue
        from ..norm import is_new_helper
        if is_new_helper(fn):
            continue              # read through its callers (a helper that did not exist on the pinned tree is inlined)
        if "groupby" not in ast.unparse(fn.node) and not any(
                isinstance(c, ast.Call) for c in ast.walk(fn.node)):
            continue
        seen = set()
        for pa in explore(ck, fn, unroll=(0, 1), max_paths=3000):
            for t, facts, node, kind in path_terms(pa):
                for gb, inp, k in groupby_sites(t):
                    if gb in seen:
                        continue
                    seen.add(gb)
                    n_gb += 1
                    construct = f"{short(fn)}:groupby-key"
                    w = where(fn, node)
                    exc = _groupby_exception(ctx, fn)
                    if exc is not None:
                        ck.ok(rule, construct, w, "frozen exception: " + exc)
                        continue
                    s = sort_spec(inp)
                    while s is None and inp[0] == "call" and inp[1] in ("list", "iter", "tuple") and len(inp[2]) == 1:
                        inp = inp[2][0]
                        s = sort_spec(inp)
                    if s is None:
                        ck.violation(rule, construct, w,
                                     "itertools.groupby runs over a list that is not sorted by the grouping key: rows of one id "
                                     "that are not adjacent form several groups (one-per-id / pair-up logic silently breaks "
                                     "depending on what else is in the list)", found=f"grouping {T.show(inp)[:160]} by {T.show(k)[:60] if k else None}",
                                     required="groupby(sorted(xs, key=K), K)")
                        continue
                    _, sk, desc = s
                    same = (sk == k) or (key_path(ctx, sk) is not None and key_path(ctx, sk) == key_path(ctx, k))
                    kt = key_tuple(ctx, sk)
                    if not same and kt and desc is False and kt[0] == key_path(ctx, k):
                        same = True      # sorted by a tuple whose leading component is the group key
                    ck.judge(same, rule, construct, w,
                             "itertools.groupby runs over a list sorted by the same key (otherwise one id forms several groups)",
                             found=f"sorted by {T.show(sk) if sk else None}, grouped by {T.show(k) if k else None}",
                             required="identical keys")
    if only_functions is None and only_modules is None:
        ck.floor(f"{rule} groupby sites judged", n_gb, 5)
    return n_gb


def _tuple_key_selection(inner, bparam):
    """[tie-break components] when `inner` is sorted(<candidates>, key=lambda a: (a.confidence, t1, ...), reverse=True)"""
    if not (inner[0] == "call" and inner[1] == "sorted" and len(inner[2]) == 1 and inner[2][0] == bparam):
        return None
    kw = dict(inner[3])
    key = kw.get("key")
    if kw.get("reverse") != C(True) or key is None or key[0] != "lam" or key[1] != 1 or key[2][0] != "tuple" or len(key[2][1]) < 2:
        return None
    bvs = [x for x in T.subterms(key[2]) if x[0] == "bv"]
    if not bvs or key[2][1][0] != T.mk_attr(bvs[0], "confidence"):
        return None
    return list(key[2][1][1:])


def best_candidate_tiebreak(ck, rule):
    """among equally confident candidates the choice must not look at the strand: no tie-break component reads a quantity that
    changes sign or order with the strand (query start / end, orientation)"""
    from ..rules.common import parallel_map_site
    ctx = ck.ctx
    fn_exec, call, mapname, worker_lambda, worker = parallel_map_site(ctx)
    sel_fns = [ctx.p.get_function(pa.value[1]) for pa in explore(ck, worker, unroll=(0, 1))
               if pa.outcome == "return" and pa.value is not None and pa.value[0] == "app"]
    n = 0
    for bfn in dict.fromkeys(sel_fns):
        bparam = V(bfn.call_params()[0].name)
        for pa in explore(ck, bfn):
            if pa.outcome != "return" or pa.value is None:
                continue
            for x in T.subterms(pa.value):
                tie = _tuple_key_selection(x, bparam) if x[0] == "call" else None
                if tie is None:
                    continue
                n += 1
                bad = [a for t in tie for a in T.subterms(t) if a[0] == "attr" and a[2] in (
                    "queryStartPosition", "queryEndPosition", "reverseStrand", "orientation", "reverse")]
                ck.judge(not bad, rule, short(bfn) + ":tie-break", where(bfn, pa.node),
                         "equally confident candidates are not told apart by the strand (query start > query end on '-': a signed "
                         "span, the start coordinate or the orientation always favours one strand)",
                         found="; ".join(T.show(t)[:80] for t in tie), required="confidence alone (ties in candidate order), or a "
                         "strand-symmetric quantity")
    if not n:
        ck.ok(rule, "best-candidate:tie-break", worker.where, "the winner is chosen by confidence alone: ties fall to the candidate "
              "order, which is the strand-symmetric seed score order")


def seeds_over_all_references(ck, rule):
    """the seed selection sees the correlations of every reference (both strands) at once: selectPeaks is applied to the
    flattened per-reference correlations of the whole reference list the worker received - not reference by reference, which
    would keep count x references seeds and let a seed outside the global top count produce the record"""
    from ..rules.common import path_terms
    ck.clause(rule, "the top-count seeds are chosen once, over the correlations of all references and both strands")
    ctx = ck.ctx
    from ..rules.common import parallel_map_site, private_anchor
    fn = parallel_map_site(ctx)[4]                      # the per-query worker, whatever it is called
    pc_q = private_anchor(ctx, "_WorkflowCoordinator", "__getPrimaryCorrelations", "_WorkflowCoordinator.execute",
                          calls=("getInitialAlignment",)).qualname
    params = [pp.name for pp in fn.call_params()]
    refs = V(params[0])
    calls = []
    for pa in explore(ck, fn, unroll=(0, 1)):
        for t, facts, node, kind in path_terms(pa):
            for x in T.subterms(t):
                if x[0] == "app" and x[1].endswith("PeaksSelector.selectPeaks") and not any(x == y for y, _ in calls):
                    calls.append((x, node))
    ck.floor(f"{rule} selectPeaks calls in the worker", len(calls), 1)
    for x, node in calls:
        arg = list(dict(x[3]).values())[0] if x[3] else None
        w = where(fn, node)
        ok = arg is not None and arg[0] == "comp" and len(arg[3]) == 2 and arg[3][0][0] == refs and not arg[3][0][1] \
            and arg[3][1][0][0] == "app" and arg[3][1][0][1] == pc_q and not arg[3][1][1] \
            and arg[2][0] == "bv"
        per_reference = arg is not None and arg[0] == "app" and arg[1] == pc_q
        if ok:
            ck.ok(rule, short(fn) + ":selection-input", w, "selectPeaks receives the correlations of every reference the worker "
                  "was given, flattened into one sequence", T.show(arg)[:200])
        elif per_reference:
            ck.violation(rule, short(fn) + ":selection-input", w, "selectPeaks is applied to one reference's correlations at a time: "
                         "up to count seeds survive per reference, and a seed outside the global top count can produce the record",
                         found=T.show(arg)[:240],
                         required=f"chain.from_iterable(__getPrimaryCorrelations(r, query) for r in {params[0]})")
        elif arg is not None and arg[0] == "comp" and len(arg[3]) == 2 and arg[3][1][0][0] == "app" and arg[3][1][0][1] == pc_q \
                and arg[3][0][0][0] == "call" and arg[3][0][0][1].split(".")[-1] in ("takewhile", "islice", "dropwhile") \
                and T.contains(arg[3][0][0], refs):
            cut = arg[3][0][0][1].split(".")[-1]
            ck.violation(rule, short(fn) + ":selection-input", w,
                         f"the references are consumed through {cut}(...): a prefix / suffix of the reference list, not a selection - "
                         "the references behind the first one that fails the test are never correlated (a reference shorter than the "
                         "molecule in front of the one that holds the true alignment: the record is a low-confidence hit elsewhere, or missing)",
                         found=T.show(arg[3][0][0])[:200], required=f"every reference of {params[0]} (a filter may skip, it may not stop)")
        else:
            raise AnalysisError(f"{w}: what selectPeaks is applied to is not recognised: {T.show(arg)[:200] if arg else None}")


def refined_seeds(ck, rule):
    """every seed the selection hands back is refined and aligned: what the worker walks when it refines is the selection's result
    itself - not a subset of it (a 'these two are the same anyway' filter removes a candidate that was never built)"""
    from ..rules.common import parallel_map_site, private_anchor, path_terms
    ctx = ck.ctx
    ck.clause(rule, "every selected seed is refined and aligned: nothing is dropped between the selection and the refinement")
    worker = parallel_map_site(ctx)[4]
    refine = private_anchor(ctx, "_WorkflowCoordinator", "__getSecondaryCorrelation", "_WorkflowCoordinator.execute", calls=("refine",))
    # each seed is refined around its own position, within its own correlation
    sp = V(refine.call_params()[0].name)
    n_ref = 0
    for pa in explore(ck, refine):
        for t, facts, node, kind in path_terms(pa):
            for x in T.subterms(t):
                if x[0] == "app" and x[1].endswith("InitialAlignment.refine"):
                    n_ref += 1
                    a = dict(x[3])
                    recv_ok = x[2] == T.mk_attr(sp, "primaryCorrelation")
                    pos_ok = a.get("peakPosition") == T.mk_attr(T.mk_attr(sp, "peak"), "position")
                    ck.judge(recv_ok and pos_ok, rule, short(refine) + ":own-peak", where(refine, node),
                             "a selected seed is refined in its own correlation around its own position (not around that correlation's "
                             "highest peak: two seeds of one correlation would give the same candidate twice and the other is never built)",
                             found=f"{T.show(x[2])[:60]}.refine(peakPosition={T.show(a.get('peakPosition', C(None)))[:80]})",
                             required="selectedPeak.primaryCorrelation.refine(selectedPeak.peak.position, ...)")
        if n_ref:
            break
    if n_ref == 0:
        raise AnalysisError(f"{refine.where}: the call of InitialAlignment.refine was not found")
    n = 0
    for pa in explore(ck, worker, unroll=(0, 1)):
        for t, facts, node, kind in path_terms(pa):
            for x in T.subterms(t):
                if x[0] == "comp" and x[2][0] == "app" and x[2][1] == refine.qualname and len(x[3]) == 1:
                    it, ifs = x[3][0]
                    while it[0] == "call" and it[1] in ("enumerate", "list", "tuple", "iter") and it[2]:
                        it = it[2][0]
                    n += 1
                    w = where(worker, node)
                    direct = it[0] == "app" and it[1].endswith("PeaksSelector.selectPeaks") and not ifs
                    if direct:
                        ck.ok(rule, short(worker) + ":refined", w, "the refinement walks the selection's result", T.show(it)[:120])
                    elif any(y[0] == "app" and y[1].endswith("PeaksSelector.selectPeaks") for y in T.subterms(it)) or ifs:
                        ck.violation(rule, short(worker) + ":refined", w,
                                     "the seeds that are refined are a subset of the seeds that were selected: a selected seed is dropped "
                                     "before its candidate alignment is built (seeds at a similar coordinate may lie on different "
                                     "references or strands)", found=T.show(x[3][0][0])[:200] + (" if ..." if ifs else ""),
                                     required="[refine(p, i) for i, p in enumerate(selectPeaks(...))]")
                    else:
                        # the selection's result went through a helper first: a helper that appends elements of its parameter
                        # under a condition hands back a subset
                        import ast as _ast
                        for call in [c for c in _ast.walk(worker.node) if isinstance(c, _ast.Call)]:
                            inner = [c2 for a in call.args for c2 in _ast.walk(a) if isinstance(c2, _ast.Call)
                                     and isinstance(c2.func, _ast.Attribute) and c2.func.attr == "selectPeaks"]
                            if not inner:
                                continue
                            for c0 in ctx.cg.resolve_call(worker, call):
                                if c0.kind != "fn" or not c0.fn.call_params():
                                    continue
                                prm0 = c0.fn.call_params()[0].name
                                for loop in [l for l in _ast.walk(c0.fn.node) if isinstance(l, _ast.For)
                                             and isinstance(l.iter, _ast.Name) and l.iter.id == prm0]:
                                    cond_append = any(isinstance(i0, _ast.If) and any(
                                        isinstance(y, _ast.Call) and isinstance(y.func, _ast.Attribute) and y.func.attr == "append"
                                        for y in _ast.walk(i0)) for i0 in _ast.walk(loop))
                                    if cond_append:
                                        ck.violation(rule, short(worker) + ":refined", w,
                                                     f"the selected seeds pass through `{short(c0.fn)}`, which keeps an element of its "
                                                     "argument only under a condition: a selected seed can be dropped before its candidate "
                                                     "alignment is built (seeds at a similar coordinate may lie on different references or "
                                                     "strands)", found=_ast.unparse(call)[:160],
                                                     required="[refine(p, i) for i, p in enumerate(selectPeaks(...))]")
                                        return
                        raise AnalysisError(f"{w}: what the refinement walks is not recognised: {T.show(it)[:160]}")
                    return
    if n == 0:
        raise AnalysisError(f"{worker.where}: the refinement of the selected seeds was not found in the worker")


def seeds(ck, rule):
    ctx = ck.ctx
    fn = ctx.p.find_method("PeaksSelector", "selectPeaks")
    rets = [pa for pa in explore(ck, fn) if pa.outcome == "return"]
    if not rets:
        raise AnalysisError(f"{fn.where}: selectPeaks has no return path")
    ranked = [(pa, as_topk(ctx, pa.value)) for pa in rets]
    main = [(pa, tk) for pa, tk in ranked if tk is not None]
    for pa, tk in ranked:
        if tk is not None:
            continue
        # a return path that does not rank: only "no candidate at all -> no seed" is compatible with the property
        v = pa.value
        w = where(fn, pa.node)
        empty_value = v in (("list", ()), ("tuple", ())) or (v[0] == "call" and v[1] in ("list", "tuple") and not v[2])
        conds = [(c, tv) for c, tv, _ in pa.state.assumptions]

        def says_empty(c, tv):
            c0, pos = T.positive(c)
            truth = tv if pos else (not tv)
            if c0[0] == "call" and c0[1] in ("any", "bool", "len") and truth is False:
                return True
            if c0[0] in ("v", "comp", "attr", "concat") and truth is False:
                return True
            if c0[0] == "eq" and C(0) in c0[1:] and any(x[0] == "call" and x[1] == "len" for x in c0[1:]) and truth is True:
                return True
            return False
        if empty_value and conds and all(says_empty(c, tv) for c, tv in conds):
            ck.ok(rule, short(fn) + ":no-candidates", w, "no seed is returned only when there is no candidate peak",
                  "; ".join(T.show(c)[:80] for c, _ in conds))
        elif not main and len(rets) == 1:
            # ranked by score and then sorted again by something else: the *last* sort is the primary order, the score only
            # breaks its ties
            inner0 = v[1] if v[0] == "slice" else v
            outer_spec = sort_spec(inner0)
            if outer_spec is not None and sort_spec(outer_spec[0]) is not None:
                in_spec = sort_spec(outer_spec[0])
                in_path = key_path(ctx, in_spec[1])
                out_mentions_score = outer_spec[1] is not None and any(x[0] == "attr" and x[2] == "score" for x in T.subterms(outer_spec[1]))
                if in_path and in_path[-1] == "score" and not out_mentions_score:
                    ck.violation(rule, short(fn) + ":ranking", w,
                                 "the peaks are sorted by score and then sorted again by another key: a stable sort keeps the earlier "
                                 "order only among equal keys, so the second key decides which peaks come first and the score merely "
                                 "breaks its ties - the seeds kept are not the highest-scoring ones",
                                 found=T.show(v)[:240], required="sorted(peaks, key=score, reverse=True)[:count] as the last ordering step")
                    continue
            raise AnalysisError(f"{w}: top-N selection idiom not recognised: {T.show(v)[:200]}")
        else:
            ck.violation(rule, short(fn) + ":unranked-return", w, "a return path hands back seeds that did not pass the ranking "
                         "(generation order instead of descending score, or seeds withheld although candidates exist)",
                         found=f"return {T.show(v)[:120]} when " + "; ".join(("" if tv else "not ") + T.show(c)[:100] for c, tv in conds),
                         required="TOPK(key=peak.score, k=self.count, descending) on every path with candidates")
    if not main:
        if any(o.status == "VIOLATION" for o in ck.obligations if o.rule == rule):
            return
        raise AnalysisError(f"{fn.where}: no return path of selectPeaks ranks the peaks")
    pa0, tk = main[0]
    v = pa0.value
    w = where(fn, pa0.node)
    probs = []
    if tk["key"] not in (("peak", "score"), ("score",)):
        probs.append(f"ranks by {tk['key']}")
    if tk["kind"] != "largest":
        probs.append("keeps the lowest-scoring peaks")
    if tk["k"] != self_attr("count"):
        probs.append(f"keeps {T.show(tk['k'])} peaks")
    ck.judge(not probs, rule, short(fn), w, "seeds = the `count` highest-scoring peaks over all correlations, descending",
             found="; ".join(probs) if probs else T.show(v)[:200], required="TOPK(key=peak.score, k=self.count, descending)")
    # the candidates arrive as a one-shot iterator (chain of generators): nothing may consume them before the ranking
    from ..rules.iters import run_iterator_rule
    run_iterator_rule(ck, rule, [fn])
    # all peaks of all correlations take part
    inp = tk["input"]
    ok = inp[0] == "comp" and len(inp[3]) == 2 and not inp[3][0][1] and not inp[3][1][1] \
        and inp[3][0][0] == V("correlations") and inp[3][1][0][0] == "attr" and inp[3][1][0][2] == "peaks" \
        and inp[3][1][0][1][0] == "bv"
    if ok:
        ck.ok(rule, short(fn) + ":candidates", w, "every peak of every correlation is a candidate", T.show(inp)[:160])
    elif inp[0] == "comp":
        ck.violation(rule, short(fn) + ":candidates", w, "not every peak of every correlation takes part in the ranking",
                     found=T.show(inp)[:200], required="(SelectedPeak(c, p) for c in correlations for p in c.peaks)")
    else:
        raise AnalysisError(f"{w}: candidate peaks not recognised: {T.show(inp)[:160]}")

"""C17 - CMAP reading returns every labelled molecule exactly; trimming keeps geometry (structural clauses).

  C17.1  label positions pass a sort before they enter an OpticalMap
  C17.2  rows are partitioned by channel with complementary predicates on one column and constant; the length is the
         integer position of the end-marker row
  C17.3  one column identifies the molecule (filter, grouping, id read back); every column used is requested from
         readFile; molecules without labels (None) are dropped; an empty frame gives []
  C17.4  all queries are trimmed, references are not (Program.__readMaps)
  C17.5  trim: length = last - first + 1, positions = p - first, id preserved, empty map unchanged
Declined: behaviour of pandas parsing (decimal coordinates, extra columns); idempotence as a run-time fact.
"""
from __future__ import annotations

import ast

from ..loader import AnalysisError, mangle
from .. import terms as T
from ..terms import C, V
from ..rules.common import explore, where, short, self_attr, path_terms
from .c10 import id_filters


NARROW = ("float32", "float16", "int8", "int16", "int32", "uint8", "uint16", "uint32", "half", "single")


def no_narrowing(ck, rule, modules=("src.parsers.cmap_reader", "src.parsers.bionano_file_reader"), floor=8):
    """Label coordinates and lengths are carried at full precision from the file to the OpticalMap: no astype()/dtype=
    to a narrower numeric type, no rounding, in the reader chain (a float32 cannot represent coordinates above 16.7 Mb
    to 1 bp)."""
    ctx = ck.ctx
    p = ctx.p
    fns = [f for f in p.nontest_functions() if f.module.name in modules and not f.is_lambda]
    n = 0
    for f in fns:
        for node in ast.walk(f.node):
            if not isinstance(node, ast.Call):
                continue
            n += 1
            name = node.func.attr if isinstance(node.func, ast.Attribute) else (node.func.id if isinstance(node.func, ast.Name) else "")
            text = ast.unparse(node)
            narrow = [t for t in NARROW if t in text]
            if name in ("astype", "to_numeric", "downcast") and narrow:
                ck.violation(rule, short(f) + ":" + name, where(f, node), "coordinates are converted to a narrower numeric type while "
                             "reading: positions and lengths no longer equal the values in the CMAP text for large coordinates",
                             found=text[:160], required="keep the parsed float64/int64 values")
            elif any(k.arg in ("dtype", "downcast") and any(t in ast.unparse(k.value) for t in NARROW + ("float",)) and
                     any(t in ast.unparse(k.value) for t in NARROW) for k in node.keywords):
                ck.violation(rule, short(f) + ":dtype", where(f, node), "a narrow dtype is requested for coordinates while reading",
                             found=text[:160], required="default (64-bit) dtypes")
            elif name in ("round", "floor", "ceil", "trunc") and "Position" in text:
                ck.violation(rule, short(f) + ":" + name, where(f, node), "label coordinates are rounded while reading",
                             found=text[:160])
    # a narrow dtype named anywhere in the chain (a dtype table built first and handed to the reader later)
    for f in fns:
        for node in ast.walk(f.node):
            if isinstance(node, (ast.Attribute, ast.Name, ast.Constant)):
                txt = node.attr if isinstance(node, ast.Attribute) else node.id if isinstance(node, ast.Name) else node.value
                if isinstance(txt, str) and txt in NARROW:
                    ck.violation(rule, short(f) + ":narrow-type", where(f, node), "a narrow numeric type is named in the reader chain: "
                                 "coordinates above 2^24 read through it are off by one or two base pairs", found=str(txt),
                                 required="default (64-bit) dtypes")
    # ... and in the statements of these modules that belong to no function: a type table kept as a class attribute or a module
    # constant and handed to the reader by a constructor default (the two-site form: the table here, `dtype=` built from an
    # argument there - neither function names a narrow type)
    n_outer = 0
    narrow_ints = []
    n_float_narrow = [0]
    for mname in modules:
        m = p.modules.get(mname)
        if m is None:
            continue

        def outer_nodes(node):
            for ch in ast.iter_child_nodes(node):
                if isinstance(ch, (ast.FunctionDef, ast.AsyncFunctionDef, ast.Lambda)):
                    # defaults and decorators are evaluated outside the body
                    if not isinstance(ch, ast.Lambda):
                        for d in list(ch.args.defaults) + [x for x in ch.args.kw_defaults if x is not None] + list(ch.decorator_list):
                            yield d
                            yield from ast.walk(d)
                    continue
                yield ch
                yield from outer_nodes(ch)
        for node in outer_nodes(m.tree):
            n_outer += 1
            if isinstance(node, (ast.Attribute, ast.Name, ast.Constant)):
                txt = node.attr if isinstance(node, ast.Attribute) else node.id if isinstance(node, ast.Name) else node.value
                if isinstance(txt, str) and txt in NARROW and "float" not in txt and txt not in ("half", "single"):
                    narrow_ints.append(f"{m.relpath}:{getattr(node, 'lineno', 1)}: {txt}")      # exact for small counts and channels
                elif isinstance(txt, str) and txt in NARROW:
                    if _table_out_of_use(ck, m, node, fns):
                        ck.ok(rule, f"{mname.split('.')[-1]}:class-or-module-level:narrow-type:out-of-use",
                              f"{m.relpath}:{getattr(node, 'lineno', 1)}",
                              "a type table naming a narrow float is read only behind an optional parameter that no call site passes")
                        continue
                    n_float_narrow[0] += 1
                    ck.violation(rule, f"{mname.split('.')[-1]}:class-or-module-level:narrow-type", f"{m.relpath}:{getattr(node, 'lineno', 1)}",
                                 "a narrow numeric type is named in a class-level or module-level table of the reader chain: whatever "
                                 "is read through it is rounded to that type (a float32 keeps 24 bits - 942332.1 comes back as "
                                 "942332.125, coordinates above 2^24 move by one or two base pairs)", found=str(txt),
                                 required="default (64-bit) dtypes")
    if narrow_ints and not n_float_narrow[0]:
        raise AnalysisError(f"{narrow_ints[0]}: a narrow integer type in a class-level / module-level table of the reader chain: which "
                            f"columns are read through it is not decided here (exact for a channel number, wrong for a coordinate)")
    ck.floor(f"{rule} class-level / module-level nodes inspected in the reader chain", n_outer, 10)
    ck.floor(f"{rule} calls inspected in the reader chain", n, floor)
    ck.ok(rule, "reader-chain:precision", fns[0].where if fns else "", f"{n} calls in the CMAP reader chain: no narrowing conversion of coordinates")


def _table_out_of_use(ck, m, node, fns) -> bool:
    """The narrow type sits in a class-level / module-level `NAME = <table>`; every read of NAME in the functions of the reader chain
    lies in the taken branch of a test on an optional parameter (default None) of its function that no call site outside the tests
    passes. Then nothing is read through the table today (an extension point nobody uses yet); as soon as one caller passes the
    parameter the table is in use and is reported. Anything else - no simple NAME, a read elsewhere, no read at all - is 'in use'."""
    holder = None
    for st in ast.walk(m.tree):
        if isinstance(st, (ast.Assign, ast.AnnAssign)) and st.value is not None and any(x is node for x in ast.walk(st.value)):
            tgts = st.targets if isinstance(st, ast.Assign) else [st.target]
            if len(tgts) == 1 and isinstance(tgts[0], ast.Name):
                holder = tgts[0].id
    if holder is None:
        return False
    n_reads = 0
    for f in fns:
        parents = {}
        for x in ast.walk(f.node):
            for ch in ast.iter_child_nodes(x):
                parents[ch] = x
        reads = [x for x in ast.walk(f.node) if (isinstance(x, ast.Attribute) and x.attr == holder and isinstance(x.ctx, ast.Load)) or
                 (isinstance(x, ast.Name) and x.id == holder and isinstance(x.ctx, ast.Load))]
        if not reads:
            continue
        params = {pp.name: (i, pp) for i, pp in enumerate(f.call_params())}
        sites = [s_ for s_ in ck.ctx.cg.sites_calling(f) if not s_.caller.module.is_test]
        unused = set()
        for name, (i, pp) in params.items():
            if not (isinstance(pp.default, ast.Constant) and pp.default.value is None):
                continue
            passed = not sites
            for s_ in sites:
                if any(isinstance(a, ast.Starred) for a in s_.node.args) or any(k.arg is None for k in s_.node.keywords) \
                        or len(s_.node.args) > i or any(k.arg == name for k in s_.node.keywords):
                    passed = True
            if not passed:
                unused.add(name)
        for r in reads:
            n_reads += 1
            guarded = False
            cur = r
            while cur in parents:
                par = parents[cur]
                if isinstance(par, (ast.IfExp, ast.If)):
                    in_body = cur is par.body if isinstance(par, ast.IfExp) else any(cur is b for b in par.body)
                    t = par.test
                    pname = t.id if isinstance(t, ast.Name) else (
                        t.left.id if isinstance(t, ast.Compare) and isinstance(t.left, ast.Name) and len(t.ops) == 1 and
                        isinstance(t.ops[0], ast.IsNot) and isinstance(t.comparators[0], ast.Constant) and t.comparators[0].value is None
                        else None)
                    if in_body and pname in unused:
                        # the parameter must not be rebound in the function
                        rebound = any(isinstance(x, ast.Name) and x.id == pname and isinstance(x.ctx, ast.Store) for x in ast.walk(f.node))
                        guarded = not rebound
                        break
                cur = par
            if not guarded:
                return False
    return n_reads > 0


ROW_CHANGING = {"drop_duplicates": "drops rows that agree on the compared columns",
                "dropna": "drops rows with missing values", "head": "keeps the first rows only", "tail": "keeps the last rows only",
                "sample": "draws rows at random", "nlargest": "keeps n rows", "nsmallest": "keeps n rows",
                "reindex": "repeats or drops entries according to the new index", "reindex_like": "re-indexes",
                "truncate": "cuts rows", "drop": "removes rows or columns", "query": "filters rows by an expression",
                "duplicated": "marks repeated rows (for removal)", "unique": "collapses repeated values",
                "first": "keeps one row per group", "last": "keeps one row per group", "nth": "keeps one row per group"}


def _after_per_molecule_parse(f, recv, depth=0) -> bool:
    """the receiver is (a name bound once to) the result of <table>.groupby(..).apply(..): the series of parsed molecules"""
    if depth > 3:
        return False
    for x in ast.walk(recv):
        if isinstance(x, ast.Call) and isinstance(x.func, ast.Attribute) and x.func.attr == "apply" and any(
                isinstance(y, ast.Call) and isinstance(y.func, ast.Attribute) and y.func.attr == "groupby" for y in ast.walk(x.func.value)):
            return True
    if isinstance(recv, ast.Name):
        vals = [n.value for n in ast.walk(f.node) if isinstance(n, ast.Assign) and len(n.targets) == 1
                and isinstance(n.targets[0], ast.Name) and n.targets[0].id == recv.id]
        return len(vals) == 1 and _after_per_molecule_parse(f, vals[0], depth + 1)
    return False


def frame_integrity(ck, rule, modules=("src.parsers.cmap_reader", "src.parsers.bionano_file_reader")):
    """The table read from the file reaches the per-molecule parser row for row: between read_csv and the groupby nothing is
    applied to it that removes, repeats or collapses rows - the only reduction is the `isin` filter on the id column.
    (Purely syntactic and exact for the pandas operations it names; the pinned readers use none of them.)"""
    ck.clause(rule, "no row of the file is dropped, repeated or merged while reading: the only reduction of the table is the id filter")
    p = ck.ctx.p
    fns = [f for f in p.nontest_functions() if f.module.name in modules and not f.is_lambda]
    n = 0
    hit = False
    for f in fns:
        for node in ast.walk(f.node):
            if isinstance(node, ast.Call) and isinstance(node.func, ast.Attribute):
                n += 1
                if node.func.attr == "drop" and (any(k.arg == "columns" for k in node.keywords) or any(
                        k.arg == "axis" and ast.unparse(k.value) in ("1", "'columns'", '"columns"') for k in node.keywords)):
                    continue              # dropping a column keeps every row
                if node.func.attr == "dropna" and _after_per_molecule_parse(f, node.func.value):
                    continue              # the parsed molecules (None for a molecule without labels), not the table: s[s.notnull()]
                if node.func.attr in ROW_CHANGING:
                    hit = True
                    ck.violation(rule, short(f) + ":" + node.func.attr, where(f, node),
                                 f"`{node.func.attr}` is applied to the table while reading ({ROW_CHANGING[node.func.attr]}): label "
                                 "rows of the file no longer reach the molecule one for one - two labels at the same coordinate, "
                                 "an id listed twice in the filter, or rows of *another* molecule decide what a molecule looks like",
                                 found=ast.unparse(node)[:140], required="read_csv -> [isin filter on the id column] -> groupby")
    # a column replaced by a freshly built Series: pandas lines it up with the frame by *row label*, and after the id filter the
    # frame still carries the labels of the whole file - rows get another row's value or NaN
    for f in fns:
        for node in ast.walk(f.node):
            series = []
            if isinstance(node, ast.Call) and isinstance(node.func, ast.Attribute) and node.func.attr == "assign":
                series = [k.value for k in node.keywords if k.arg]
            elif isinstance(node, ast.Assign) and len(node.targets) == 1 and isinstance(node.targets[0], ast.Subscript):
                series = [node.value]
            for v in series:
                if isinstance(v, ast.Call) and ast.unparse(v.func).split(".")[-1] == "Series" and \
                        not any(k.arg == "index" for k in v.keywords) and len(v.args) < 2:
                    hit = True
                    ck.violation(rule, short(f) + ":column<-Series", where(f, node),
                                 "a column of the table is replaced by a Series built without the frame's index: pandas aligns by row "
                                 "label, and a table that was filtered by id keeps the labels of the full file - the coordinates of the "
                                 "selected molecules are taken from other rows (or become NaN)", found=ast.unparse(node)[:160],
                                 required="assign the array itself, or Series(..., index=<frame>.index)")
    # the call that reads the table: with names= given, every non-comment line of the file is a data row - header=<n>, skiprows=,
    # nrows=, skipfooter= ... take rows away before any molecule is looked at
    n_csv = 0
    for f in fns:
        for node in ast.walk(f.node):
            if isinstance(node, ast.Call) and ast.unparse(node.func).split(".")[-1] in ("read_csv", "read_table"):
                n_csv += 1
                kws = {k.arg: k.value for k in node.keywords if k.arg}
                for kname in ("header", "skiprows", "nrows", "skipfooter", "chunksize", "iterator", "on_bad_lines", "index_col"):
                    v = kws.get(kname)
                    if v is None or (isinstance(v, ast.Constant) and (v.value is None or v.value is False)) or \
                            (kname == "header" and "names" not in kws) or (kname == "on_bad_lines" and isinstance(v, ast.Constant) and v.value == "error"):
                        continue
                    hit = True
                    ck.violation(rule, short(f) + f":read_csv:{kname}", where(f, node),
                                 f"read_csv is called with {kname}={ast.unparse(v)}: "
                                 + ("the column names are given with names= and the '#h' line is a comment, so the first *data* row of "
                                    "every file is taken for a header and dropped" if kname == "header" else
                                    "rows of the file are skipped, cut off or re-indexed before the molecules are grouped")
                                 + " - which molecule loses a label (or its end marker) depends on what stands first in the file",
                                 found=ast.unparse(node)[:160], required="read_csv(file, comment='#', delimiter='\\t', names=..., usecols=...)")
    ck.floor(f"{rule} read_csv calls in the reader chain", n_csv, 1)
    ck.floor(f"{rule} method calls inspected in the reader chain", n, 8)
    if not hit:
        ck.ok(rule, "reader-chain:rows", fns[0].where if fns else "", f"{n} method calls in the reader chain: none removes, repeats or "
              "collapses rows")


def column_names(ck, rule):
    """the column names come from the first line that starts with the header prefix: stripped, split on white space, without
    the prefix token itself"""
    from ..rules.common import merged_return, self_attr
    p = ck.ctx.p
    ck.clause(rule, "column names = tokens of the first '#h' line after the prefix token")
    cls = p.find_class("BionanoFileReader")
    fn = None
    for m in cls.methods.values():
        if m.name not in ("__init__", "readFile") and "split" in ast.unparse(m.node):
            fn = m
    if fn is None:
        raise AnalysisError(f"{cls.where}: header-line parser of BionanoFileReader not found")
    v, pa = merged_return(ck, fn)
    w = where(fn, pa.node)
    file_p = V(fn.call_params()[0].name)
    # a parameter that every caller binds to self.<attr> stands for that attribute (the helper made static, the prefix handed in)
    from ..callgraph import bind_args as _bind
    for prm in fn.call_params()[1:]:
        vals = set()
        for s0 in ck.ctx.cg.sites_calling(fn):
            if s0.caller.module.is_test:
                continue
            b, exact = _bind(fn.call_params(), s0.node)
            a0 = b.get(prm.name)
            vals.add(ast.unparse(a0) if a0 is not None and exact else None)
        if len(vals) == 1 and None not in vals:
            txt = vals.pop()
            if txt.startswith("self.") and txt.count(".") == 1:
                v = T.substitute(v, {V(prm.name): self_attr(txt.split(".")[1])})
    # [1:] of split(whitespace, strip(first line of dropwhile(not startswith(prefix), file)))
    ok_slice = v[0] == "slice" and v[2] == C(1) and v[3] == T.NONE and v[4] == T.NONE
    ck.judge(ok_slice, rule, short(fn) + ":drop-prefix-token", w, "the first token (the '#h' marker) is dropped, all others kept",
             found=T.show(v)[:160], required="tokens[1:]")
    inner = v[1] if v[0] == "slice" else v
    split_ok = inner[0] == "call" and inner[1].endswith("split") and len(inner[2]) == 2 and inner[2][0] == C("\\s+") or \
        (inner[0] == "mcall" and inner[2] == "split" and not inner[3])
    ck.judge(bool(split_ok), rule, short(fn) + ":split", w, "the header line is split on runs of white space",
             found=T.show(inner)[:160], required="re.split(r'\\s+', line) / line.split()")
    drops = [x for x in T.subterms(v) if x[0] == "call" and x[1].endswith("dropwhile") and len(x[2]) == 2]
    filters = [x for x in T.subterms(v) if x[0] == "comp" and len(x[3]) == 1 and x[3][0][0] == file_p and x[2][0] == "bv"]
    if drops:
        pred, src = drops[0][2]
        body = T.as_bool(pred[2]) if pred[0] == "lam" else None
        want_not_start = body is not None and body[0] == "not" and body[1][0] == "mcall" and body[1][2] == "startswith" \
            and body[1][3] == (self_attr("headersLinePrefix"),)
        ck.judge(bool(want_not_start) and src == file_p, rule, short(fn) + ":header-line", w,
                 "lines are skipped until the first one that starts with the reader's header prefix",
                 found=T.show(drops[0])[:200], required="dropwhile(lambda l: not l.startswith(self.headersLinePrefix), file)")
    elif filters:
        ifs = filters[0][3][0][1]
        okf = len(ifs) == 1 and ifs[0][0] == "mcall" and ifs[0][2] == "startswith" and ifs[0][1] == filters[0][2] \
            and ifs[0][3] == (self_attr("headersLinePrefix"),)
        ck.judge(bool(okf), rule, short(fn) + ":header-line", w, "only lines that start with the reader's header prefix are considered",
                 found=T.show(filters[0])[:200], required="(l for l in file if l.startswith(self.headersLinePrefix))")
    else:
        raise AnalysisError(f"{w}: the search for the header line is neither a dropwhile nor a filter over the file: {T.show(v)[:160]}")
    first = [x for x in T.subterms(v) if (x[0] == "idx" and x[2] == C(0)) or (x[0] == "call" and x[1] == "next")]
    ck.judge(bool(first), rule, short(fn) + ":first-line", w, "the first such line is taken", found=T.show(v)[:160])


def header_driven_selection(ck, rule):
    """Which file column a requested name stands for is decided by the '#h' line: the names given to read_csv are the header's
    tokens and the requested columns are selected *by name*. Selecting by position and attaching the requested names afterwards
    reads another column whenever the file lists its columns in another order (pandas ignores the order of an integer usecols)."""
    p = ck.ctx.p
    ck.clause(rule, "columns are selected by the names of the header line: read_csv(names=<tokens of the '#h' line>, usecols=<requested names>)")
    fn = p.find_class("BionanoFileReader").methods.get("readFile")
    if fn is None:
        raise AnalysisError("BionanoFileReader.readFile not found")
    file_p, cols_p = [V(x.name) for x in fn.call_params()[:2]]
    n = 0
    for pa in explore(ck, fn):
        if pa.outcome != "return":
            continue
        calls = [x for x in T.subterms(pa.value) if x[0] == "call" and x[1].endswith(("read_csv", "read_table"))]
        if not calls:
            continue
        n += 1
        kw = dict(calls[0][3])
        names, use = kw.get("names"), kw.get("usecols")
        w = where(fn, pa.node)
        if names is None or use is None:
            raise AnalysisError(f"{w}: read_csv without names= / usecols=: the column selection is not recognised: {T.show(calls[0])[:160]}")
        # the table is tab-separated: a cell may be empty or hold a blank (extra columns of real files do); splitting the rows on
        # runs of white space shifts every later field of such a row by one
        sep = kw.get("delimiter", kw.get("sep"))
        if sep is None:
            ck.violation(rule, short(fn) + ":separator", w, "read_csv is called without a field separator: the default is the comma",
                         found=T.show(calls[0])[:160], required="delimiter='\\t'")
        elif sep[0] == "c" and isinstance(sep[1], str):
            ck.judge(sep[1] == "\t", rule, short(fn) + ":separator", w, "rows are split on the tab, the separator of the BNX/CMAP/XMAP family "
                     "(an empty cell or a blank inside a cell does not move the later fields)", found=repr(sep[1]), required=repr("\t"))
        else:
            raise AnalysisError(f"{w}: field separator of read_csv is not a literal: {T.show(sep)[:80]}")
        names_from_header = file_p in T.subterms(names) and cols_p not in T.subterms(names)
        while use[0] == "call" and use[1] in ("list", "tuple") and len(use[2]) == 1:
            use = use[2][0]
        by_name = use == cols_p
        positional = cols_p in T.subterms(names) and (any(x[0] == "mcall" and x[2] == "index" for x in T.subterms(use)) or
                                                     any(x[0] == "c" and isinstance(x[1], int) and not isinstance(x[1], bool) for x in T.subterms(use)))
        if names_from_header and by_name:
            ck.ok(rule, short(fn) + ":by-name", w, "names = header tokens, usecols = requested names", T.show(calls[0])[:160])
        elif positional:
            ck.violation(rule, short(fn) + ":by-name", w,
                         "the requested columns are selected by position and the requested names are attached afterwards: pandas hands "
                         "the names out in ascending file-column order, so a file whose header lists the columns in another order than "
                         "the caller (Position before LabelChannel, CMapId last) is read with the names on the wrong columns",
                         found=f"names={T.show(names)[:60]}, usecols={T.show(use)[:100]}", required="names=<header tokens>, usecols=<requested names>")
        else:
            raise AnalysisError(f"{w}: column selection of read_csv not recognised: names={T.show(names)[:100]} usecols={T.show(use)[:100]}")
    ck.floor(f"{rule} read_csv return paths of readFile", n, 1)


def reader_is_stateless(ck, rule):
    """what a file is parsed into does not depend on the files read before through the same reader object"""
    from ..rules.effects import self_state_writes
    p = ck.ctx.p
    ck.clause(rule, "reading a file writes no state of the reader object (one reader serves reference and query file: nothing of the "
                    "first file may be remembered for the second)")
    n_fn = 0
    for cls_name in ("BionanoFileReader", "CmapReader"):
        cls = p.find_class(cls_name)
        for m in cls.methods.values():
            if m.name == "__init__" or m.name.startswith("_") and not m.name.startswith("_" + cls_name.lstrip("_")):
                if m.name == "__init__":
                    continue
            hits, n = self_state_writes(p, m)
            n_fn += 1
            for f, node, kind in hits:
                if kind != "state-write":
                    continue
                ck.violation(rule, short(f) + ":state-write", where(f, node), "the reader remembers something from the file it is "
                             "reading: the next file read through the same reader (the query file after the reference file) is "
                             "parsed with what the first one left behind", found=ast.unparse(node)[:140],
                             required="no write to self.* outside __init__")
    ck.floor(f"{rule} reader methods examined", n_fn, 6)
    if not any(o.rule == rule and o.status == "VIOLATION" for o in ck.obligations):
        ck.ok(rule, "readers:stateless", "src/parsers/", f"{n_fn} reader methods write no attribute of the reader")


def run(ck):
    ctx = ck.ctx
    p = ctx.p
    ck.clause("C17.6", "coordinates are carried at full precision through the reader")
    no_narrowing(ck, "C17.6")
    ck.clause("C17.1", "label positions are sorted while reading")
    ck.clause("C17.2", "label rows / end marker split by complementary predicates; length from the end marker")
    ck.clause("C17.3", "one id column; requested columns cover the used ones; label-less molecules dropped; empty file -> []")
    ck.clause("C17.4", "queries trimmed, references not")
    ck.clause("C17.5", "trim formulae")
    id_filters(ck, "C17.3", "C17.1")
    reader_is_stateless(ck, "C17.7")
    column_names(ck, "C17.8")
    frame_integrity(ck, "C17.9")
    if ck.wants("C17.10"):
        header_driven_selection(ck, "C17.10")
    ck.clause("C17.11", "the id filter is read once: the readers' signature admits any Iterable[int], and an iterator that a helper has "
                        "already walked (to warn about unknown ids, to count them) selects nothing in the filter that follows")
    from ..rules.iters import run_iterator_rule as _rir
    rfns = [f for f in p.nontest_functions() if f.module.name == "src.parsers.cmap_reader" and not f.is_lambda]
    if ck.wants("C17.11"):
        _rir(ck, "C17.11", rfns, iterable_params=True)
    ck.floor("C17.11 functions of the CMAP reader examined", len(rfns), 5)
    if not any(o.rule == "C17.11" and o.status == "VIOLATION" for o in ck.obligations):
        ck.ok("C17.11", "CmapReader:id-filter-read-once", "src/parsers/cmap_reader.py", f"{len(rfns)} functions: no Iterable parameter is walked twice")
    cr = p.find_class("CmapReader")
    from ..rules.common import cmap_reader_methods
    read, parse = cmap_reader_methods(ck)
    if parse is None or read is None:
        raise AnalysisError("CmapReader.__read / __parseCmapRowsGroup not found")
    group = V(parse.call_params()[0].name)
    used_cols = set()
    from ..rules.common import merged_return
    for v, pa in [merged_return(ck, parse)]:
        w = where(parse, pa.node)
        news = [x for x in T.subterms(v) if x[0] == "new" and x[1].endswith(":OpticalMap")]
        if not news:
            raise AnalysisError(f"{w}: OpticalMap construction not found")
        a = dict(news[0][2])
        for x in T.subterms(v):
            if x[0] == "idx" and x[2][0] == "c" and isinstance(x[2][1], str):
                used_cols.add(x[2][1])
        # masks
        masks = []
        for x in T.subterms(v):
            if x[0] == "idx" and x[1] == group and x[2][0] in ("eq", "ne") and x[2] not in masks:
                masks.append(x[2])
        pos = a.get("positions")
        length = a.get("length")
        label_mask = [m for m in masks if T.contains(pos, T.mk_idx(group, m))] if pos else []
        end_mask = [m for m in masks if T.contains(length, T.mk_idx(group, m))] if length else []
        if len(label_mask) == 1 and not end_mask and length is not None and T.contains(length, group):
            ck.violation("C17.2", short(parse) + ":end-marker", w,
                         "the molecule length is not read from the end-marker row (LabelChannel == 0): it depends on which row "
                         "happens to be picked (row order in the file)", found=T.show(length)[:200],
                         required="int(group[group['LabelChannel'] == 0].iloc[0]['Position'])")
            continue
        if len(end_mask) == 1 and not label_mask and pos is not None and T.contains(pos, group):
            ck.violation("C17.2", short(parse) + ":complementary", w,
                         "label rows are not selected by the channel test complementary to the end marker's",
                         found=T.show(pos)[:200], required="group[group['LabelChannel'] != 0]['Position']")
            continue
        if len(label_mask) != 1 or len(end_mask) != 1:
            raise AnalysisError(f"{w}: channel masks for label rows / end marker not recognised ({len(label_mask)}, {len(end_mask)})")
        lm, em = label_mask[0], end_mask[0]
        ok = {lm[0], em[0]} == {"eq", "ne"} and (lm[1], lm[2]) == (em[1], em[2])
        ck.judge(ok, "C17.2", short(parse) + ":complementary", w,
                 "label rows and the end marker are selected by complementary tests on the same column and constant",
                 found=f"labels: {T.show(lm)}, end marker: {T.show(em)}", required="col != k  /  col == k")
        const = [x for x in (em[1], em[2]) if x[0] == "c"]
        colx = [x for x in (em[1], em[2]) if x[0] == "idx"]
        ck.judge(em[0] == "eq" and const == [C(0)] and colx and colx[0][2] == C("LabelChannel"), "C17.2", short(parse) + ":end-marker", w,
                 "the end marker is the row with LabelChannel == 0", found=T.show(em), required="group['LabelChannel'] == 0")
        lok = length is not None and length[0] == "call" and length[1] == "int" and \
            any(x[0] == "idx" and x[2] == C("Position") for x in T.subterms(length))
        ck.judge(bool(lok), "C17.2", short(parse) + ":length", w, "length = int(Position of the end-marker row)",
                 found=T.show(length)[:160] if length else "None", required="int(endMarker['Position'])")
        pok = pos is not None and any(x[0] == "idx" and x[2] == C("Position") for x in T.subterms(pos))
        ck.judge(bool(pok), "C17.2", short(parse) + ":positions-column", w, "label coordinates are read from the Position column",
                 found=T.show(pos)[:160] if pos else "None")
        # None for molecules without labels
        sel = v if v[0] == "select" else None
        ck.judge(sel is not None and sel[3] == T.NONE and sel[1] == pos, "C17.3", short(parse) + ":no-labels", w,
                 "a molecule without labels yields None (dropped by the caller)", found=T.show(v)[-120:],
                 required="OpticalMap(...) if positions else None")
    # requested columns
    req = None
    for pa in explore(ck, read, unroll=(0, 1)):
        for t, facts, node, kind in path_terms(pa):
            for x in T.subterms(t):
                if x[0] == "app" and x[1].endswith("BionanoFileReader.readFile"):
                    cols = dict(x[3]).get("columns")
                    if cols is not None and cols[0] == "list":
                        req = [c[1] for c in cols[1] if c[0] == "c"]
                if x[0] == "idx" and x[2][0] == "c" and isinstance(x[2][1], str):
                    used_cols.add(x[2][1])
                if x[0] == "mcall" and x[2] == "groupby" and x[3] and x[3][0][0] == "c":
                    used_cols.add(x[3][0][1])
    if req is None:
        raise AnalysisError(f"{read.where}: column list requested from readFile not found")
    missing = sorted(c for c in used_cols if c not in req)
    ck.judge(not missing, "C17.3", short(read) + ":columns", read.where, "every column the reader uses is requested from readFile",
             found=f"missing {missing}" if missing else f"requested {req}, used {sorted(used_cols)}")
    # None results dropped, empty frame -> []
    # every return path: either the explicit `[]` for an empty frame, or the parsed maps with the None entries dropped
    rpaths = [pa for pa in explore(ck, read, unroll=(0, 1)) if pa.outcome == "return"]
    seen_v = []
    n_full = 0
    for pa in rpaths:
        w = where(read, pa.node)
        for v, extra in [(pa.value, [])] if pa.value[0] != "select" else [(pa.value[2], [(pa.value[1], True)]),
                                                                           (pa.value[3], [(pa.value[1], False)])]:
            if v in seen_v:
                continue
            seen_v.append(v)
            if v == ("list", ()):
                conds = [(c, tv) for c, tv, _ in pa.state.assumptions] + extra
                empty_guard = any(tv and c[0] == "attr" and c[2] == "empty" for c, tv in conds)
                ck.judge(empty_guard, "C17.3", short(read) + ":empty-file", w, "an empty frame gives an empty list",
                         found="; ".join(("" if tv else "not ") + T.show(c)[:60] for c, tv in conds))
                continue
            n_full += 1
            notnull = any(x[0] == "mcall" and x[2] in ("notnull", "notna", "dropna") for x in T.subterms(v)) or \
                any(x[0] == "comp" and x[3][0][1] for x in T.subterms(v))
            ck.judge(notnull, "C17.3", short(read) + ":drop-none", w, "molecules without labels (None) are dropped before returning",
                     found=T.show(v)[:160], required="opticalMaps[opticalMaps.notnull()]")
    ck.floor("C17.3 return values of the CMAP reader carrying maps", n_full, 1)
    queries_trimmed(ck, "C17.4")
    trim_formulae(ck, "C17.5")


def queries_trimmed(ck, rule, references=True):
    """Program stores every query trimmed (first label at 0, length = first to last label) and every reference as read."""
    p = ck.ctx.p
    # ---- C17.4
    rm = p.get_function("src.program:Program.__init__")
    own_private = lambda callee: callee.cls is rm.cls and callee is not rm and callee.name.startswith("_")
    stores = {}
    for pa in explore(ck, rm, follow=own_private, unroll=(0, 1)):
        if pa.outcome not in ("fall", "return"):
            continue
        for e in pa.events:
            if e.kind == "setattr" and e.extra["target"] in (self_attr("queryMaps"), self_attr("referenceMaps")):
                stores[e.extra["target"]] = (e.term, e.node)
        break
    q, r = stores.get(self_attr("queryMaps")), stores.get(self_attr("referenceMaps"))
    if q is None or r is None:
        raise AnalysisError(f"{rm.where}: assignments of self.queryMaps / self.referenceMaps not found")
    qt, qn = q
    rt, rn = r
    trim = p.find_method("OpticalMap", "trim")

    def trimmed_image(t):
        inner = t
        while inner[0] == "call" and inner[1] in ("list", "tuple") and len(inner[2]) == 1:
            inner = inner[2][0]
        if inner[0] == "call" and inner[1] == "map" and len(inner[2]) == 2 and inner[2][0][0] == "lam":
            body = inner[2][0][2]
            is_trim = (body[0] == "app" and body[1] == trim.qualname) or (body[0] == "mcall" and body[2] == "trim")
            return is_trim and not (body[3] if body[0] == "mcall" else dict(body[3])), inner[2][1]
        if inner[0] == "comp" and len(inner[3]) == 1:
            # (a filter on the comprehension selects queries - C10's business; every query that is kept is trimmed)
            body = inner[2]
            is_trim = (body[0] == "app" and body[1] == trim.qualname) or (body[0] == "mcall" and body[2] == "trim")
            return is_trim, inner[3][0][0]
        return False, inner
    is_trim, src = trimmed_image(qt)
    if not is_trim and src[0] == "app" and "CmapReader" not in src[1]:
        # the reading and trimming sit in a local function / helper of one expression: judge what it spells out
        from ..rules.common import expand_simple_apps
        qt2 = expand_simple_apps(ck, qt, 1)
        is_trim, src = trimmed_image(qt2)
        if not is_trim and not (src[0] == "app" and "CmapReader" in src[1]):
            raise AnalysisError(f"{where(rm, qn)}: what is stored in self.queryMaps is not read as reader result / trimmed reader result: "
                                f"{T.show(qt)[:160]}")
    ck.judge(bool(is_trim) and src[0] == "app" and src[1].endswith("CmapReader.readQueries"), rule, "Program.__readMaps:queries",
             where(rm, qn), "every query is trimmed (QryLen is measured from the first to the last label)",
             found=T.show(qt)[:200], required="[q.trim() for q in readQueries(...)]")
    if not references:
        return
    r_trim, rsrc = trimmed_image(rt)
    ck.judge(not r_trim and rt[0] == "app" and rt[1].endswith("CmapReader.readReferences"), rule, "Program.__readMaps:references",
             where(rm, rn), "references keep their original coordinates (not trimmed)", found=T.show(rt)[:200],
             required="readReferences(...) unmodified")


def trim_formulae(ck, rule):
    ctx = ck.ctx
    p = ctx.p
    trim = p.find_method("OpticalMap", "trim")
    # a memoised trim must be keyed by everything it reads: the label list above all
    from ..rules.effects import memoised_with_incomplete_key
    mk = memoised_with_incomplete_key(p, trim)
    if mk is not None:
        ck.violation(rule, short(trim) + ":memo-key", trim.where,
                     f"trim is memoised ({mk[0]}) but reads self.{', self.'.join(mk[1])}, which is {mk[2]}: a map with the same id and "
                     "length but other labels gets the trimmed map of the one that came first",
                     found=f"@{mk[0]}", required="no memo, or the label list as part of the key")
    # ---- C17.5
    positions = self_attr("positions")
    first, last = T.mk_idx(positions, C(0)), T.mk_idx(positions, C(-1))
    n = 0
    for pa in explore(ck, trim):
        if pa.outcome != "return":
            continue
        v = pa.value
        w = where(trim, pa.node)
        if v == V(trim.self_name):
            ck.judge(pa.facts.get(positions) is False, rule, short(trim) + ":empty", w, "only a map without labels is returned unchanged",
                     found=pa.describe()[:120], required="not self.positions")
            continue
        if v[0] != "new":
            raise AnalysisError(f"{w}: trim result not recognised: {T.show(v)[:120]}")
        n += 1
        a = dict(v[2])
        ck.judge(a.get("moleculeId") == self_attr("moleculeId"), rule, short(trim) + ":id", w, "trim keeps the molecule id",
                 found=T.show(a.get("moleculeId", C(None))))
        ck.judge(a.get("length") == T.p_add(T.p_sub(last, first), C(1)), rule, short(trim) + ":length", w,
                 "trimmed length = last - first + 1", found=T.show(a.get("length", C(None))), required=T.show(T.p_add(T.p_sub(last, first), C(1))))
        pos = a.get("positions")
        inner = pos
        while inner is not None and inner[0] == "call" and inner[1] in ("list", "tuple") and len(inner[2]) == 1:
            inner = inner[2][0]
        okp = False
        if inner is not None and inner[0] == "call" and inner[1] == "map" and len(inner[2]) == 2 and inner[2][0][0] == "lam":
            lam = inner[2][0]
            lv = min([x[1] for x in T.subterms(lam[2]) if x[0] == "bv"] or [0])
            okp = lam[2] == T.p_sub(("bv", lv), first) and inner[2][1] == positions
        elif inner is not None and inner[0] == "comp" and len(inner[3]) == 1 and not inner[3][0][1]:
            bv = [x for x in T.subterms(inner[2]) if x[0] == "bv"]
            okp = bool(bv) and inner[2] == T.p_sub(bv[0], first) and inner[3][0][0] == positions
        ck.judge(okp, rule, short(trim) + ":positions", w, "every label is shifted by the first label's coordinate",
                 found=T.show(pos)[:160] if pos else "None", required="[p - self.positions[0] for p in self.positions]")
        ck.judge("shift" not in a or a["shift"] == self_attr("shift"), rule, short(trim) + ":shift", w,
                 "trim does not invent a label-number offset", found=T.show(a.get("shift", C(0))))
    ck.floor(f"{rule} trimming return paths", n, 1)

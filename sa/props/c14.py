"""C14 - the chain is a best-scoring admissible selection (structural clauses).

  C14.1  a join score is never positive and is 0 for a perfectly contiguous join (R-SIGN: abstract evaluation over the
         sign domain for both sequentialityScore variants; constant folding at referenceDistance = queryDistance = 0)
  C14.2  excessive overlap is inadmissible: -inf iff min(refLen + 2*refDist, qLen + 2*qDist) < 0
  C14.3  reference and query distance are both current start - previous end, on both strands (reverse-strand query
         coordinates are mirrored and ascend; shared with C11.2)
  C14.4  the DP cannot return -inf and never takes a segment twice: finite re-initialisation before maximising,
         predecessor recorded only on strict improvement, predecessors range over a proper prefix, own score added
         once, back-tracking until None; empty segments are passed through (complementary predicates)
  C14.6  the pre-order key of the DP increases with all four coordinates of a segment and does not depend on the strand
  C14.5  the join score is a function of the two segments and the scorer's two configuration values only: getScore (and the
         methods of the scorer it calls) write no attribute or container of the scorer and never use object identity
         (id()): a remembered score of an earlier pair must not stand in for a later one
Declined: optimality over all order-respecting subsets.
"""
from __future__ import annotations

import ast

from ..loader import AnalysisError
from .. import terms as T
from ..terms import C, V
from ..norm import Normalizer
from ..rules.common import explore, where, short, self_attr
from ..rules.order import key_path, sort_spec
from ..rules import sign as S
from ..rules import effects as E


def pos(seg, end, side):
    return T.mk_attr(T.mk_attr(T.mk_attr(V(seg), end + "Position"), side), "position")


def expected_distances(prev="previousSegment", cur="currentSegment"):
    ref_dist = T.p_sub(pos(cur, "start", "reference"), pos(prev, "end", "reference"))
    fwd = T.p_sub(pos(cur, "start", "query"), pos(prev, "end", "query"))
    rev = T.p_sub(pos(prev, "end", "query"), pos(cur, "start", "query"))
    # Reverse-strand query labels are emitted in mirrored, ascending coordinates (C11.1 / C02.5), segments hold their
    # positions in ascending order and the chainer pre-orders by coordinate sum: along a chain the query coordinate grows
    # on both strands, so the gap is current start - previous end regardless of the strand.  (`rev` is the negated form
    # the tree had before fix F5; it is only used to name that defect precisely when it comes back.)
    q_dist = fwd
    ref_len = T.mk_call("min", [T.p_sub(pos(cur, "end", "reference"), pos(cur, "start", "reference")),
                                T.p_sub(pos(prev, "end", "reference"), pos(prev, "start", "reference"))])
    q_len = T.mk_call("min", [T.mk_call("abs", [T.p_sub(pos(cur, "end", "query"), pos(cur, "start", "query"))]),
                              T.mk_call("abs", [T.p_sub(pos(prev, "end", "query"), pos(prev, "start", "query"))])])
    return ref_dist, q_dist, fwd, rev, ref_len, q_len


def chain_not_read_from_a_set(ck, rule):
    """The chain is a SEQUENCE: its members are handed back in the order in which they follow each other along the diagonal (the
    pairwise conflict resolution works on index neighbours). A set of the members' indices has no order: small integers come back
    ascending only while they are smaller than the set's table (8 slots up to 4 members, 32 up to 20); {0, 8, 9} iterates 8, 9, 0."""
    p = ck.ctx.p
    ck.clause(rule, "the chain is handed back in the order of its predecessor links: it is never read out of a set (iteration order of a "
                    "set of indices is ascending only by accident of the table size - from nine segments on a chain {0, 8, 9} comes back "
                    "as 8, 9, 0 and its consecutive members are no admissible neighbours)")
    cls = p.find_class("SegmentChainer")
    n = 0
    hit = False
    for f in cls.methods.values():
        sets = set()
        for x in ast.walk(f.node):
            if isinstance(x, ast.Assign) and len(x.targets) == 1 and isinstance(x.targets[0], ast.Name) and (
                    isinstance(x.value, (ast.Set, ast.SetComp)) or (isinstance(x.value, ast.Call) and isinstance(x.value.func, ast.Name)
                                                                    and x.value.func.id in ("set", "frozenset"))):
                sets.add(x.targets[0].id)
        for x in ast.walk(f.node):
            gens = []
            if isinstance(x, (ast.ListComp, ast.GeneratorExp)):
                gens = [g.iter for g in x.generators]
            elif isinstance(x, ast.For):
                gens = [x.iter]
            for it in gens:
                n += 1
                if isinstance(it, ast.Name) and it.id in sets and any(
                        isinstance(y, ast.Subscript) for y in ast.walk(x.elt if hasattr(x, "elt") else x)):
                    hit = True
                    ck.violation(rule, f"{short(f)}:chain-from-set", where(f, x),
                                 f"segments are picked by iterating over the set `{it.id}`: the order of a set is not the order of the chain",
                                 found=ast.unparse(x)[:120], required="the members in predecessor-link order (a list)")
    ck.floor(rule + " loops / comprehensions in the chainer", n, 1)
    if not hit:
        ck.ok(rule, "SegmentChainer:order", cls.where, f"{n} iterations: none reads segments out of a set")


def keyless_tuple_sorts(ck, rule):
    """decorate-sort-undecorate without a key function: sorted([(k, segment), ...]) compares the segments themselves whenever two
    keys are equal - AlignmentSegment defines no order, so chain() raises TypeError for two segments with equal ordering keys (the
    same labels seen from two neighbouring peaks)."""
    p = ck.ctx.p
    ck.clause(rule, "the chainer never sorts (key, segment) tuples without a key function: on a tie of the keys Python compares the "
                    "segments, which have no order - TypeError, the run of that molecule (and with it the whole run) ends")
    cls = p.find_class("SegmentChainer")
    seg = p.find_class("AlignmentSegment")
    ordered = seg is not None and any(m in seg.methods for m in ("__lt__", "__gt__", "__le__", "__ge__"))
    n = 0
    for f in cls.methods.values():
        tuple_lists = set()
        wide_lists = set()
        for x in ast.walk(f.node):
            if isinstance(x, ast.Call) and isinstance(x.func, ast.Attribute) and x.func.attr == "append" and isinstance(x.func.value, ast.Name) \
                    and x.args and isinstance(x.args[0], ast.Tuple) and len(x.args[0].elts) == 2:
                tuple_lists.add(x.func.value.id)
            elif isinstance(x, ast.Call) and isinstance(x.func, ast.Attribute) and x.func.attr == "append" and isinstance(x.func.value, ast.Name) \
                    and x.args and isinstance(x.args[0], ast.Tuple) and len(x.args[0].elts) > 2:
                wide_lists.add(x.func.value.id)        # (key, tie-breaker, segment): whether the tie-breaker is unique is not decided here
            if isinstance(x, ast.Assign) and len(x.targets) == 1 and isinstance(x.targets[0], ast.Name) and \
                    isinstance(x.value, (ast.ListComp, ast.GeneratorExp)) and isinstance(x.value.elt, ast.Tuple) and len(x.value.elt.elts) == 2:
                tuple_lists.add(x.targets[0].id)
        for x in ast.walk(f.node):
            is_sorted = isinstance(x, ast.Call) and isinstance(x.func, ast.Name) and x.func.id == "sorted" and x.args
            is_sort = isinstance(x, ast.Call) and isinstance(x.func, ast.Attribute) and x.func.attr == "sort" and isinstance(x.func.value, ast.Name)
            if not (is_sorted or is_sort):
                continue
            n += 1
            if any(k.arg == "key" for k in x.keywords):
                continue
            subject = x.args[0] if is_sorted else x.func.value
            if isinstance(subject, ast.Name) and subject.id in wide_lists:
                raise AnalysisError(f"{where(f, x)}: a keyless sort of tuples with a tie-breaking component is not judged by this rule")
            tuples = (isinstance(subject, ast.Name) and subject.id in tuple_lists) or (
                isinstance(subject, (ast.ListComp, ast.GeneratorExp)) and isinstance(subject.elt, ast.Tuple) and len(subject.elt.elts) == 2) or (
                isinstance(subject, ast.Call) and isinstance(subject.func, ast.Name) and subject.func.id == "zip")
            if tuples and not ordered:
                ck.violation(rule, f"{short(f)}:keyless-sort", where(f, x),
                             "(key, segment) tuples are sorted without a key function: two segments with equal keys are compared with each "
                             "other and AlignmentSegment has no order - TypeError in chain() (two segments over the same labels from "
                             "neighbouring peaks tie on start.ref + end.ref + start.query + end.query)",
                             found=ast.unparse(x)[:100], required="sorted(..., key=lambda pair: pair[0]) (stable: ties keep their order)")
    ck.floor(rule + " sorts in the chainer", n, 1)
    if not any(o.rule == rule and o.status == "VIOLATION" for o in ck.obligations):
        ck.ok(rule, "SegmentChainer:sorts", cls.where, f"{n} sort(s): every sort of compound elements names its key")


def run(ck):
    ck.clause("C14.1", "join score is non-positive and exactly 0 for a contiguous join")
    ck.clause("C14.2", "-inf exactly when a neighbour overlaps by more than half the shorter extent (either axis)")
    ck.clause("C14.3", "reference and query distance = current start - previous end on both strands (mirrored coordinates ascend)")
    ck.clause("C14.4", "DP bookkeeping: finite init, strict improvement, proper prefix, own score once, empty pass-through")
    ck.clause("C14.5", "the join score depends on the two segments and the configuration only (no remembered state, no id())")
    join_score(ck)
    if ck.wants("C14.10"):
        keyless_tuple_sorts(ck, "C14.10")
    if ck.wants("C14.11"):
        chain_not_read_from_a_set(ck, "C14.11")
    dp(ck)
    ck.clause("C14.8", "the chainer the program runs with is built from the options that configure it: --segmentJoinMultiplier as the "
                       "multiplier, --sequentialityScore as the variant (as C04.1)")
    from ..report import RuleView as _RV14
    from . import c04 as _c04
    _c04.wiring(_RV14(ck, {"C04.1": "C14.8"}, only_constructs=("SequentialityScorer", "SegmentChainer")))
    ck.clause("C14.9", "--sequentialityScore and --segmentJoinMultiplier reach the scorer as numbers: the option keeps its numeric type "
                       "(the scorer picks its variant with `== 0`, which a string never satisfies)")
    from ..rules.common import option_interface
    if ck.wants("C14.9"):
        option_interface(ck, "C14.9", only_dests={"sequentialityScore", "segmentJoinMultiplier"})
    ck.clause("C14.7", "the chainer keeps nothing from one call to the next: DP tables and links are local to a call (as C09.3 / C10.1)")
    from .c09 import persistent_state
    persistent_state(_RV14(ck, {"C14.7": "C14.7"}, only_files=("src/alignment/segment_chainer.py",)), "C14.7")
    ck.ok("C14.7", "chainer:state", "src/alignment/segment_chainer.py", "worker-persistent state rule applied to the chainer module", "")


NEG_INF_FORMS = None


def _neg_inf_forms():
    global NEG_INF_FORMS
    if NEG_INF_FORMS is None:
        inf = T.mk_attr(("ext", "math"), "inf")
        NEG_INF_FORMS = (T.p_neg(inf), T.p_neg(("call", "float", (C("inf"),), ())), ("call", "float", (C("-inf"),), ()),
                         T.p_neg(T.mk_attr(("ext", "numpy"), "inf")), T.p_neg(("call", "float", (C("infinity"),), ())),
                         ("call", "float", (C("-infinity"),), ()))
    return NEG_INF_FORMS


def join_score(ck):
    """Judged per return path of getScore, whatever functions the computation is spread over (methods of the scorer that it
    calls are explored in place):
      C14.2  a path returns -inf  <=>  it has asserted the excessive-overlap condition; every finite path has refuted it
             (besides tests of the scorer's own configuration, nothing else may decide)
      C14.3  the distances inside that condition (and handed to the formula) are current start - previous end on both axes
      C14.1  every returned expression is non-positive over the sign domain; a contiguous join scores exactly 0"""
    ctx = ck.ctx
    p = ctx.p
    fn = p.find_method("SequentialityScorer", "getScore")
    prm = [pp.name for pp in fn.call_params()]
    if len(prm) != 2:
        raise AnalysisError(f"{fn.where}: getScore(previous, current) expected")
    prev, cur = prm
    pure_scorer(ck, fn)
    ref_dist, q_dist, fwd, rev, ref_len, q_len = expected_distances(prev, cur)
    own = lambda callee: callee.cls is fn.cls and callee is not fn     # helper methods the formula may have been moved to
    paths = [pa for pa in explore(ck, fn, follow=own, split_returns=True) if pa.outcome == "return"]
    ck.floor("C14 return paths of getScore", len(paths), 2)
    want_overlap = T.mk_lt(T.mk_call("min", [T.p_add(ref_len, T.p_mul(C(2), ref_dist)),
                                              T.p_add(q_len, T.p_mul(C(2), q_dist))]), C(0))
    want_pos, want_pol = T.positive(want_overlap)

    def mentions_segments(c):
        return T.contains(c, V(prev)) or T.contains(c, V(cur))
    n_inf = n_fin = 0
    mult = None
    for k, pa in enumerate(paths):
        v = pa.value
        w = where(fn, pa.node)
        conds = [(c, tv) for c, tv, _ in pa.state.assumptions]
        # truth of the excessive-overlap condition on this path (None when the path does not decide it): evaluated under the
        # path's facts, so it does not matter whether the code tests it directly, negated, through a flag variable or one
        # disjunct at a time
        ov = T.specialize(T.as_bool(want_overlap), pa.facts, boolpos=True)
        overlap = ov[1] if ov[0] == "c" and isinstance(ov[1], bool) else None

        def atoms(c):
            out = set()
            for x in T.subterms(c):
                if x[0] == "lt":
                    out.add(x[1])
                elif x[0] == "le":
                    out.add(T.p_neg(x[1]))
            return out
        own_atoms = atoms(T.as_bool(want_overlap))
        foreign = []                 # conditions on the segments other than the overlap condition
        for c, tv in conds:
            if mentions_segments(c) and not (atoms(T.as_bool(c)) and atoms(T.as_bool(c)) <= own_atoms):
                foreign.append(c if tv else T.mk_not(c))
        if v in _neg_inf_forms():
            n_inf += 1
            if overlap is True and not foreign:
                ck.ok("C14.2", short(fn) + ":inadmissible", w,
                      "-inf iff min(refLen + 2*refDist, qLen + 2*qDist) < 0 (overlap strictly more than half the shorter extent)")
            else:
                shown = [c if tv else T.mk_not(c) for c, tv in conds]
                known = all(x[0] in ("lt", "le", "or", "and", "poly", "attr", "v", "call", "select", "c", "not", "eq", "ne")
                            for c in shown for x in T.subterms(c))
                if not known:
                    raise AnalysisError(f"{w}: overlap test not in the recognised vocabulary")
                ck.violation("C14.2", short(fn) + ":inadmissible", w, "the inadmissibility test differs from "
                             "min(refLen + 2*refDist, qLen + 2*qDist) < 0", found="; ".join(T.show(c)[:400] for c in shown) or "unconditional",
                             required=T.show(want_overlap)[:400])
            continue
        n_fin += 1
        if overlap is not False or foreign:
            shown = [c if tv else T.mk_not(c) for c, tv in conds]
            if foreign and overlap is False:
                ck.violation("C14.2", short(fn) + f":finite#{k}:extra-condition", w,
                             "a finite join score depends on a further condition on the two segments", found="; ".join(T.show(c)[:200] for c in foreign))
            else:
                ck.violation("C14.2", short(fn) + f":finite#{k}:overlap-not-tested", w,
                             "a finite join score is returned on a path that never refuted the excessive-overlap condition: two "
                             "segments overlapping by more than half of the shorter one get a finite score (and can be chained)",
                             found=f"return {T.show(v)[:120]} when " + ("; ".join(T.show(c)[:160] for c in shown) or "unconditionally"),
                             required="not (" + T.show(want_overlap)[:300] + ") on every finite path")
            continue
        # ---- the formula on this path
        items = T.to_poly(v)
        apps = []
        if len(items) == 1:
            (mono, coeff), = items.items()
            apps = [f for f in mono if f[0] == "app"]
            others = [f for f in mono if f[0] != "app"]
            if len(apps) == 1 and len(others) == 1:
                mult = others[0]
        if len(apps) == 1 and mult is not None:
            inner = p.get_function(apps[0][1])
            a = dict(apps[0][3])
            names = [pp.name for pp in inner.call_params()]
            rd, qd = a.get(names[0]), a.get(names[1])
            ck.judge(rd == ref_dist, "C14.3", short(fn) + ":reference-distance", w,
                     "reference distance = current start - previous end", found=T.show(rd)[:160], required=T.show(ref_dist))
            strand_dependent = qd is not None and any(x[0] == "attr" and x[2] in ("reverse", "reverseStrand") for x in T.subterms(qd))
            ck.judge(qd == q_dist, "C14.3", short(fn) + ":query-distance", w,
                     "query distance = current start - previous end on both strands: reverse-strand query coordinates are mirrored "
                     "and ascend along a chain, a negated distance on '-' turns every gap into an overlap"
                     + (" (the distance depends on the strand)" if strand_dependent else ""),
                     found=T.show(qd)[:240], required=T.show(q_dist)[:240])
            iev = S.SignEval(ctx, inner, {})
            iev.returns()
            for j, (line, text, sg) in enumerate(iev.trace):
                ck.judge(sg in (S.NONNEG, S.POS, S.ZERO), "C14.1", f"{short(inner)}:variant#{j}", f"{inner.module.relpath}:{line}",
                         "the distance penalty is non-negative: (sum of squares) / (max(..., 1) > 0)",
                         found=f"sign {sg} for `{text}`", required="nonneg")
            zero_env = {names[0]: C(0), names[1]: C(0)}
            for j, ip in enumerate([x for x in explore(ck, inner, env=zero_env) if x.outcome == "return"]):
                variant = "; ".join(("" if tv else "not ") + T.show(c) for c, tv, _ in ip.state.assumptions) or f"variant {j}"
                ck.judge(ip.value == C(0), "C14.1", f"{short(fn)}:zero[{variant}]", where(inner, ip.node),
                         "a perfectly contiguous join (both distances 0) scores exactly 0", found=T.show(ip.value), required="0")
        else:
            # the formula is written out on the path: the distances it uses must be the two expected polynomials, and it
            # must vanish when both are 0
            zero = {pos(cur, "start", "reference"): pos(prev, "end", "reference"), pos(cur, "start", "query"): pos(prev, "end", "query")}
            vz = T.substitute(v, zero)
            ck.judge(_is_zero(vz), "C14.1", f"{short(fn)}:zero[path {k}]", w,
                     "a perfectly contiguous join (current start == previous end on both axes) scores exactly 0",
                     found=T.show(vz)[:200], required="0")
            uses = [x for x in T.subterms(v) if x[0] == "attr" and x[2] == "position"]
            allowed = {pos(cur, "start", "reference"), pos(prev, "end", "reference"), pos(cur, "start", "query"), pos(prev, "end", "query")}
            stray = [x for x in uses if x not in allowed]
            ck.judge(not stray, "C14.3", f"{short(fn)}:distances[path {k}]", w,
                     "the finite score is a function of the two gaps (current start - previous end) only",
                     found="also reads " + ", ".join(sorted({T.show(x) for x in stray}))[:200] if stray else T.show(v)[:120])
    ck.floor("C14.2 -inf return paths", n_inf, 1)
    ck.floor("C14.1 finite return paths", n_fin, 1)
    # ---- C14.1 sign of everything getScore can return (raw syntax: sums of squares stay visible), callees included
    ck.assume("segmentJoinMultiplier >= 0 (O6: args.py does not validate it; a negative multiplier is outside any "
              "sensible configuration)")
    init = p.lookup_method(fn.cls, "__init__", None)
    mult_attr = None
    if init is not None:
        for prm_name, attr in E.init_param_to_attr(ctx, fn.cls).items():
            if "ultiplier" in prm_name:
                mult_attr = attr
    if mult_attr is None:
        mult_attr = mult[2] if mult is not None and mult[0] == "attr" else "segmentJoinMultiplier"
    ev = S.SignEval(ctx, fn, {"self." + mult_attr: S.NONNEG}, depth=3)
    ev.returns()
    seen_lines = []
    for line, text, sg in ev.trace:
        seen_lines.append(line)
        ck.judge(sg in (S.NONPOS, S.NEG, S.ZERO), "C14.1", f"{short(fn)}:sign@return#{seen_lines.index(line)}",
                 f"{fn.module.relpath}:{line}", "join score is non-positive: -(multiplier >= 0) * (non-negative / positive), or -inf",
                 found=f"sign {sg} for `{text}`", required="nonpos")
    ck.floor("C14.1 returned expressions evaluated over the sign domain", len(ev.trace), 2)
    ck.observe("O6 segmentJoinMultiplier is not validated to be non-negative (args.py)")


def _is_zero(t) -> bool:
    """0, -0.0, 0 * x, 0 / x after normalisation"""
    if T.is_num_const(t):
        return t[1] == 0
    if t[0] == "div":
        return _is_zero(t[1])
    if t[0] == "poly":
        return all(any(_is_zero(f) for f in mono) for mono, c in t[1]) if t[1] else True
    return False


def _preorder_key(ck, fn, spec, w):
    """C14.6: the DP only looks back, so the pre-order must put every admissible predecessor first: the key grows with each
    of the four coordinates of a segment (both axes ascend along a chain on both strands) and does not look at the strand"""
    ck.clause("C14.6", "segments are pre-ordered by a key that increases with all four coordinates, on both strands")
    kw = dict(spec[3])
    key = kw.get("key")
    desc = kw.get("reverse", C(False))
    body = None
    lv = None
    if key is not None and key[0] == "lam" and key[1] == 1:
        lvs = [x[1] for x in T.subterms(key[2]) if x[0] == "bv"]
        lv = ("bv", min(lvs)) if lvs else None
        body = key[2]
    elif key is not None and key[0] == "fn":
        kf = ck.ctx.p.functions.get(key[1])
        if kf is not None and len(kf.call_params()) == 1:
            lv = ("bv", 0)
            body = Normalizer(ck.ctx, kf, {kf.call_params()[0].name: lv}, inline=1)._body_to_term(list(kf.body))
    if body is None or lv is None:
        raise AnalysisError(f"{w}: pre-order key of the chain not recognised: {T.show(key)[:160] if key else None}")
    from ..rules.common import expand_simple_apps
    body = expand_simple_apps(ck, body)
    strand = [x for x in T.subterms(body) if x[0] == "attr" and x[2] in ("reverse", "reverseStrand", "siteId")]
    coords = {pos_of(lv, e, a) for e in ("start", "end") for a in ("reference", "query")}
    items = T.to_poly(body) if body[0] in ("poly", "attr") else None
    ok = False
    if items is not None and not strand:
        monos = {m[0]: c for m, c in items.items() if len(m) == 1}
        ok = len(monos) == len(items) and set(monos) == coords and all(c > 0 for c in monos.values())
    ck.judge(ok and desc == C(False), "C14.6", short(fn) + (":pre-order:strand" if strand else ":pre-order"), w,
             "pre-order key = positive combination of reference start/end and query start/end, ascending, the same on both strands"
             + (" (the key reads the strand / label numbers: on '-' the mirrored query coordinates ascend like the forward ones)" if strand else ""),
             found=T.show(body)[:240], required="start.reference + end.reference + start.query + end.query")


def pos_of(seg, end, side):
    return T.mk_attr(T.mk_attr(T.mk_attr(seg, end + "Position"), side), "position")


def pure_scorer(ck, fn):
    """C14.5: no state of the scorer is written while scoring, no object identity is used"""
    from ..rules.effects import self_state_writes
    hits, n = self_state_writes(ck.ctx.p, fn)
    for f, node, kind in hits:
        if kind == "state-write":
            ck.violation("C14.5", short(f) + ":state-write", where(f, node),
                         "the scorer writes its own state while scoring: a later call can be answered from what an earlier, "
                         "unrelated pair left behind (the scorer lives for the whole run and serves every query)",
                         found=ast.unparse(node)[:140], required="no write to self.* in getScore and its helpers")
        else:
            ck.violation("C14.5", short(f) + ":identity", where(f, node),
                         "object identity is used while scoring: id() values are reused once a segment is freed, so two different "
                         "segment pairs can be taken for the same one", found=ast.unparse(node)[:100], required="no id()")
    if not hits:
        ck.ok("C14.5", short(fn) + ":pure", fn.where, f"{n} function(s) of the scorer examined: no write to self.*, no id()")


def _dp_step(ck, fn, outer, i_name, cur_name, ordered):
    """(a)-(d) of C14.4, decided on the *summary* of one outer iteration rather than on the statements that compute it: the
    body of the outer loop is explored with the inner loop run 0, 1 and 2 times; on every path the value left in
    cumulated[i] / previous[i] must be what the recurrence

        best, link = 0, None
        for k-th predecessor (ordered[:i] only):  candidate_k = cumulated[j_k] + join(ordered[j_k], current)
                                                  if candidate_k > best: best, link = candidate_k, j_k       (strict)
        cumulated[i] = best + current.segmentScore ;  previous[i] = link

    leaves on the same sequence of test outcomes.  Whether the running best lives in cumulated[i] itself or in a local, and
    whether the own score is added with += or in one assignment, makes no difference to that summary."""
    from ..paths import Explorer
    ctx = ck.ctx
    I, CUR = V(i_name), V(cur_name)
    own = T.mk_attr(CUR, "segmentScore")
    w = where(fn, outer)
    inner_loops = [x for x in ast.walk(outer) if isinstance(x, (ast.For, ast.While)) and x is not outer]
    if not inner_loops:
        raise AnalysisError(f"{w}: inner loop over predecessors not found")

    def in_inner(node):
        ln = getattr(node, "lineno", None)
        return ln is not None and any(l.lineno <= ln <= (l.end_lineno or l.lineno) for l in inner_loops)
    ex = Explorer(ctx, fn, env={i_name: I, cur_name: CUR}, unroll=(0, 1, 2))
    paths = [pa for pa in ex.run(body=list(outer.body)) if pa.outcome == "fall"]
    ck.add_paths(len(paths))
    ck.floor("C14.4 paths through one DP step (0, 1, 2 predecessors)", len(paths), 7)
    prefix = ("slice", ordered, T.NONE, I, T.NONE)
    rng = (T.mk_call("range", [I]), T.mk_call("range", [C(0), I]))
    seen = set()

    def once(kind, ok, construct, text, found=None, required=None, node=None):
        key = (construct, ok, found)
        if key in seen:
            return
        seen.add(key)
        ck.judge(ok, "C14.4", short(fn) + ":" + construct, where(fn, node) if node is not None else w, text, found=found, required=required)
    for pa in paths:
        at_i = {k[1]: v for k, v in pa.state.heap.items() if k[0] == "idx" and k[2] == I}
        tests = [(T.as_bool(c), tv, node) for c, tv, node in pa.state.assumptions if in_inner(node)]
        best, link = C(0), T.NONE
        apps_seen = []
        ok_path = True
        CUM = None
        for k, (c, tv, node) in enumerate(tests):
            apps = [x for x in T.subterms(c) if x[0] == "app" and x[1].endswith("SequentialityScorer.getScore") and x not in apps_seen]
            apps = list(dict.fromkeys(apps))
            if len(apps) != 1:
                raise AnalysisError(f"{where(fn, node)}: test inside the predecessor loop is not the improvement test of one "
                                    f"candidate ({len(apps)} new join score(s)): {T.show(c)[:200]}")
            app = apps[0]
            apps_seen.append(app)
            a = dict(app[3])
            P, cur_arg = a.get("previousSegment"), a.get("currentSegment")
            # which predecessor: the k-th element of ordered[:i], or ordered[j] for the k-th j of range(i)
            if P is not None and P[0] == "elem" and P[1] == prefix:
                j = C(P[2])
                src_ok = True
            elif P is not None and P[0] == "idx" and P[1] == ordered and P[2][0] == "elem" and P[2][1] in rng:
                j = P[2]
                src_ok = True
            else:
                src_ok = False
                j = None
            once("prefix", src_ok, "prefix", "predecessors are taken from ordered[:i] (a segment never precedes itself)",
                 found=T.show(P)[:200] if P else "None", required=T.show(prefix)[:200] + "  /  ordered[j] for j in range(i)", node=node)
            if not src_ok:
                ok_path = False
                break
            once("cur", cur_arg in (CUR, T.mk_idx(ordered, I)), "candidate", "the join is scored from the predecessor to the current "
                 "segment", found=T.show(app)[:240], required="getScore(previous=j-th, current=i-th)", node=node)
            # the array read at [j] in the test is the score array
            reads = [x for x in T.subterms(c) if x[0] == "idx" and x[2] == j and x[1] != ordered]
            cum_names = list(dict.fromkeys(x[1] for x in reads))
            if len(cum_names) != 1:
                once("cand", False, "candidate", "candidate = cumulated[j] + joinScore(previous=j-th, current=i-th)",
                     found=T.show(c)[:240], required="cumulated[j] + getScore(previous, current) compared with the best so far", node=node)
                ok_path = False
                break
            CUM = cum_names[0]
            cand = T.p_add(T.mk_idx(CUM, j), app)
            if c[0] not in ("lt", "le"):
                raise AnalysisError(f"{where(fn, node)}: improvement test is not an inequality: {T.show(c)[:200]}")
            X = T.p_add(c[1], cand)            # c is  X - candidate < 0  (strict)  or  X - candidate <= 0  (tie accepted)
            if X != best:
                if k == 0:
                    ck.violation("C14.4", short(fn) + ":init", where(fn, node), "cumulated score of a segment is not re-initialised "
                                 "before maximising over predecessors: -inf can survive into the result", found="the first candidate "
                                 "is compared with " + T.show(X)[:160], required="0 (cumulated[i] = 0 / a local best starting at 0)")
                elif T.contains(X, app) or not any(T.contains(X, a0) for a0 in apps_seen[:-1]) and best != C(0):
                    ck.violation("C14.4", short(fn) + ":candidate", where(fn, node), "candidate differs from cumulated[j] + "
                                 "joinScore(previous=j-th, current=i-th)", found=T.show(c)[:300],
                                 required=T.show(T.mk_gt(cand, best))[:300])
                else:
                    ck.violation("C14.4", short(fn) + ":strict-improvement", where(fn, node), "improvement test differs from "
                                 "`candidate > best so far`", found=T.show(c)[:300], required=T.show(T.mk_gt(cand, best))[:300])
                ok_path = False
                break
            if c[0] == "le":
                ck.violation("C14.4", short(fn) + ":strict-improvement", where(fn, node), "predecessor recorded on a tie (non-strict "
                             "test)", found=T.show(c)[:200], required=T.show(T.mk_gt(cand, best))[:200])
                ok_path = False
                break
            once("strict", True, "strict-improvement", "a predecessor is recorded only on strict improvement (a -inf join never replaces "
                 "the finite start value)", found=None, node=node)
            if tv:
                best, link = cand, j
        if not ok_path:
            continue
        # what the step leaves behind
        if CUM is None:
            # no predecessor examined on this path: the score array is the one holding a number at [i]
            cands = [b for b, v in at_i.items() if v != T.NONE and not (v[0] == "c" and v[1] is None)]
            if len(cands) != 1:
                ck.violation("C14.4", short(fn) + ":own-score", w, "a segment without predecessor does not get its own score as "
                             "cumulated score", found="; ".join(f"{T.show(b)}[i] = {T.show(v)[:80]}" for b, v in at_i.items()) or
                             "nothing stored at [i]", required="cumulated[i] = current.segmentScore")
                continue
            CUM = cands[0]
        F = at_i.get(CUM)
        want = T.p_add(best, own)
        if F != want:
            if F is not None and not tests and T.p_sub(F, own)[0] == "c" and T.p_sub(F, own) != C(0):
                ck.violation("C14.4", short(fn) + ":init", w, "cumulated score of a segment is not re-initialised before maximising over "
                             "predecessors: -inf can survive into the result", found=f"cumulated[i] = {T.show(F)[:120]} with no predecessor",
                             required="0 + current.segmentScore")
            elif F is not None and F in (best, T.p_add(best, T.p_add(own, own))) or F is None or not T.contains(F, own):
                ck.violation("C14.4", short(fn) + ":own-score", w, "the segment's own score is added exactly once",
                             found=f"cumulated[i] = {T.show(F)[:200] if F else 'not stored'}", required=T.show(want)[:200])
            else:
                ck.violation("C14.4", short(fn) + ":update", w, "on improvement both the score and the predecessor index are recorded",
                             found=f"cumulated[i] = {T.show(F)[:200]}", required=T.show(want)[:200])
            continue
        once("own", True, "own-score", "the segment's own score is added exactly once", node=outer)
        links = {b: v for b, v in at_i.items() if b != CUM}
        if link == T.NONE:
            ok_link = all(v == T.NONE for v in links.values())
        else:
            ok_link = len(links) == 1 and list(links.values())[0] == link
        if not ok_link:
            ck.violation("C14.4", short(fn) + ":update", w, "on improvement both the score and the predecessor index are recorded "
                         "(and no link is recorded without improvement)",
                         found="; ".join(f"{T.show(b)}[i] = {T.show(v)[:60]}" for b, v in links.items()) or "no link stored",
                         required=f"previous[i] = {T.show(link)}", path=pa.describe()[:300])
            continue
        once("upd", True, "update", "on improvement both the score and the predecessor index are recorded", node=outer)
        if not tests:
            once("init", True, "init", "every segment may start a chain: with no (better) predecessor cumulated[i] is its own score", node=outer)


def dp(ck):
    ctx = ck.ctx
    p = ctx.p
    fn = p.find_method("SegmentChainer", "chain")
    from ..norm import is_new_helper
    dp_fn = fn
    outer = [x for x in fn.node.body if isinstance(x, ast.For)]
    if not outer:
        # the table-filling loop may have been moved into a helper that did not exist on the pinned tree
        for node in ast.walk(fn.node):
            if isinstance(node, ast.Call):
                for c in ctx.cg.resolve_call(fn, node):
                    if c.kind == "fn" and is_new_helper(c.fn) and not outer:
                        fors = [x for x in c.fn.node.body if isinstance(x, ast.For) and any(isinstance(y, ast.For) for y in ast.walk(x) if y is not x)]
                        # the same table-filling shape only (tables indexed by the loop counter); a DP re-written around other
                        # data structures is not in the vocabulary of the step rule
                        tabled = len(fors) == 1 and isinstance(fors[0].target, ast.Tuple) and any(
                            isinstance(y, ast.Assign) and isinstance(y.targets[0], ast.Subscript)
                            and ast.unparse(y.targets[0].slice) == ast.unparse(fors[0].target.elts[0]) for y in ast.walk(fors[0]))
                        if len(fors) == 1 and tabled:
                            dp_fn, outer = c.fn, fors
    if len(outer) != 1:
        raise AnalysisError(f"{fn.where}: the DP's outer loop was not found")
    n = Normalizer(ctx, dp_fn)
    outer = outer[0]
    if not (isinstance(outer.target, ast.Tuple) and isinstance(outer.iter, ast.Call) and ast.unparse(outer.iter.func) == "enumerate"):
        raise AnalysisError(f"{where(dp_fn, outer)}: `for i, segment in enumerate(ordered)` expected")
    i_name = outer.target.elts[0].id
    cur_name = outer.target.elts[1].id
    ordered = n.norm(outer.iter.args[0])
    _dp_step(ck, dp_fn, outer, i_name, cur_name, ordered)
    # (e) back-tracking until None
    bt_fn = fn
    whiles = [x for x in fn.node.body if isinstance(x, ast.While)]
    if not whiles:
        # the back-tracking may have been moved into a helper that did not exist on the pinned tree
        for node in ast.walk(fn.node):
            if isinstance(node, ast.Call):
                for c in ctx.cg.resolve_call(fn, node):
                    if c.kind == "fn" and is_new_helper(c.fn) and any(isinstance(x, ast.While) for x in ast.walk(c.fn.node)):
                        bt_fn = c.fn
                        whiles = [x for x in c.fn.node.body if isinstance(x, ast.While)]
    if len(whiles) != 1:
        raise AnalysisError(f"{fn.where}: back-tracking loop not found")
    wt = whiles[0].test
    walrus = isinstance(wt, ast.Compare) and isinstance(wt.ops[0], ast.IsNot) and isinstance(wt.comparators[0], ast.Constant) \
        and wt.comparators[0].value is None and isinstance(wt.left, ast.NamedExpr) and isinstance(wt.left.value, ast.Subscript) \
        and ast.unparse(wt.left.value.slice) == wt.left.target.id
    # plain form:  while k is not None: ...; k = previous[k]   (k is the only thing the loop test looks at, and the body's last
    # assignment to k follows the predecessor link of k)
    plain = False
    if isinstance(wt, ast.Compare) and isinstance(wt.ops[0], ast.IsNot) and isinstance(wt.comparators[0], ast.Constant) \
            and wt.comparators[0].value is None and isinstance(wt.left, ast.Name):
        k = wt.left.id
        assigns = [x for x in whiles[0].body if isinstance(x, ast.Assign) and len(x.targets) == 1
                   and isinstance(x.targets[0], ast.Name) and x.targets[0].id == k]
        plain = len(assigns) == 1 and isinstance(assigns[0].value, ast.Subscript) and ast.unparse(assigns[0].value.slice) == k \
            and not any(isinstance(x, (ast.Break, ast.Continue)) for x in ast.walk(whiles[0]))
    ok = walrus or plain
    ck.judge(ok, "C14.4", short(fn) + ":backtrack", where(bt_fn, whiles[0]),
             "back-tracking follows the predecessor links until None (each segment at most once: links go to smaller indices)",
             found=ast.unparse(wt), required="(k := previous[k]) is not None   /   while k is not None: ...; k = previous[k]")
    # (f) empty segments pass-through with complementary predicates
    rets = [pa for pa in explore(ck, fn, unroll=(0, 1)) if pa.outcome == "return"]
    n_final = 0
    for pa in rets:
        v = pa.value
        w = where(fn, pa.node)
        comps = [x for x in T.subterms(v) if x[0] == "comp" and len(x[3]) == 1]
        empties = [x for x in comps if x[3][0][1] and x[3][0][1][0][0] == "attr" and x[3][0][1][0][2] == "empty"]
        def tail_returns(body):
            last = body[-1] if body else None
            if isinstance(last, ast.Return):
                return [last]
            if isinstance(last, ast.If):
                return tail_returns(last.body) + tail_returns(last.orelse)
            return []
        tails = tail_returns(fn.node.body)
        # the function's last statement - or, when that is an if/else, the branch that hands back a chain
        is_final = pa.node is fn.node.body[-1] or (len(tails) > 1 and pa.node in tails and v[0] == "concat")
        if is_final and v[0] != "concat":
            n_final += 1
            ck.violation("C14.4", short(fn) + ":empty-pass-through", w, "empty segments are not passed through with the chain",
                         found=T.show(v)[-200:], required="chain + [s for s in segments if s.empty]")
            continue
        if not is_final and v[0] != "concat":
            # early return: only "nothing to chain -> the empty segments themselves" keeps every empty segment
            conds = [(c, tv) for c, tv, _ in pa.state.assumptions]

            def says_nothing_to_chain(c, tv):
                c0, pos = T.positive(c)
                truth = tv if pos else (not tv)
                if not any(x[0] == "call" and x[1] == "sorted" for x in T.subterms(c0)) and not any(
                        x[0] == "comp" and x not in empties for x in T.subterms(c0)):
                    return False
                if c0[0] == "call" and c0[1] in ("any", "bool", "len") and truth is False:
                    return True
                if c0[0] in ("call", "comp") and truth is False:
                    return True
                if c0[0] == "eq" and C(0) in c0[1:] and truth is True:
                    return True
                return False
            ok = v in empties and conds and all(says_nothing_to_chain(c, tv) for c, tv in conds)
            ck.judge(bool(ok), "C14.4", short(fn) + ":early-return", w,
                     "an early return hands back all empty segments and happens only when there is no non-empty segment",
                     found=f"return {T.show(v)[:120]} when " + "; ".join(("" if tv else "not ") + T.show(c)[:100] for c, tv in conds),
                     required="return [s for s in segments if s.empty] only if there is no non-empty segment")
            continue
        if v[0] == "concat" and not is_final:
            # an early return of segments + empties that did not go through the DP: only right when there is nothing to choose
            # between - at most one non-empty segment
            n_ord = None
            for x in T.subterms(v):
                if x[0] == "call" and x[1] == "sorted":
                    n_ord = T.mk_call("len", [x])
            single = False
            if n_ord is not None:
                for f_, tv_ in pa.facts.items():
                    if (f_ == T.mk_eq(n_ord, C(1)) and tv_) or (f_ == T.mk_lt(C(1), n_ord) and tv_ is False) or \
                            (f_ == T.mk_le(n_ord, C(1)) and tv_):
                        single = True
            ck.judge(single, "C14.4", short(fn) + ":early-return", w,
                     "segments are handed back without running the DP only when there is at most one non-empty segment (otherwise a "
                     "segment whose join penalty exceeds its score, or two that overlap by more than half, stay in the chain)",
                     found=f"return {T.show(v)[-160:]} when " + "; ".join(("" if tv else "not ") + T.show(c)[:100] for c, tv, _ in pa.state.assumptions),
                     required="the chain selected by the DP (or a single non-empty segment)")
            continue
        if v[0] == "concat":
            n_final += 1
            ck.judge(bool(empties) and v[1][-1] in empties, "C14.4", short(fn) + ":empty-pass-through", w,
                     "empty segments are appended after the chain", found=T.show(v)[-160:])
            spec = None
            for x in T.subterms(v):
                if x[0] == "call" and x[1] == "sorted":
                    spec = x
            if spec is None:
                raise AnalysisError(f"{w}: pre-ordered non-empty segments not found in the returned chain")
            inp = spec[2][0]
            ok = inp[0] == "comp" and len(inp[3]) == 1 and inp[3][0][0] == V("segments") and len(inp[3][0][1]) == 1 and \
                inp[3][0][1][0] == T.mk_not(T.mk_attr(inp[2], "empty")) and empties and empties[0][3][0][0] == V("segments")
            ck.judge(bool(ok), "C14.4", short(fn) + ":complement", w,
                     "the DP input and the passed-through list are complementary selections of the same input (s.empty / not s.empty)",
                     found=T.show(inp)[:160])
            _preorder_key(ck, fn, spec, w)
    ck.floor("C14.4 final return paths of chain", n_final, 1)

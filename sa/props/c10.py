"""C10 - a query's record is independent of other molecules and of file order (structural clauses).

  C10.1  no cross-query state: worker-persistent state unobservable (as C09.3), shared inputs not mutated (as C09.6), no
         module-level / class-level object written at run time on the run path
  C10.2  the second pass finds the original query by molecule id, never by position in the list; the pair parsers look
         maps up by the matching id
  C10.3  id filters are wired to the right file (readReferences(referenceFile, referenceIds) / readQueries(queryFile,
         queryIds)); inside the reader filter, grouping and the id read back use one column, filter before grouping
  C10.4  row order cannot matter: positions are sorted while reading, molecules are grouped by id
  C10.5  no single-use iterator (generator expression, map/filter/zip/itertools object, Iterator-typed parameter) is read
         more than once: a membership test or any() advances it, so what a later row / peak sees would depend on the
         rows / peaks looked at before - i.e. on the other molecules of the run
  C10.6  what one query is aligned against does not depend on the other queries: every task handed to the parallel map is
         (the coordinator's reference list as received, that one query) - nothing derived from the whole query list
Declined: order-insensitivity of tie-breaking among equal scores; equality of restricted vs full runs.
"""
from __future__ import annotations

import ast

from ..loader import AnalysisError
from ..types import ClsT, ModT, Inst
from .. import terms as T
from ..terms import C, V
from ..rules.common import explore, where, short, self_attr, path_terms, run_reach
from ..rules import effects as E
from ..rules import role as R
from .c09 import persistent_state, shared_inputs, result_path


def run(ck):
    ck.clause("C10.1", "no cross-query state (persistent worker state, shared-input mutation, run-time module/class writes)")
    ck.clause("C10.2", "original query / maps are looked up by molecule id")
    ck.clause("C10.3", "id filters wired to the right file and column; filter precedes grouping")
    ck.clause("C10.4", "label rows are sorted and molecules grouped by id while reading; result rows are grouped by id after sorting by it")
    ck.clause("C10.5", "no single-use iterator is consumed more than once (a second reader sees what other molecules left)")
    if ck.wants("C10.14"):
        lists_not_changed_while_iterated(ck, "C10.14")
    if ck.wants("C10.15"):
        from .c02 import records_frozen as _rf10
        from ..report import RuleView as _RV1015
        _rf10(_RV1015(ck, {"C10.15": "C10.15"}, only_constructs=(":queryId", ":referenceId")), "C10.15", clause="a record's identity is not rewritten after the record was built (as C02.11): an id mapped back by "
                                   "arithmetic (`row.queryId %= ...`) lands on another molecule of the file whenever two ids agree after "
                                   "the mapping - what is written for a molecule then depends on which other molecules the file holds")
    persistent_state(ck, "C10.1")
    shared_inputs(ck, "C10.1")
    module_state(ck)
    lookups(ck)
    id_filters(ck, "C10.3", "C10.4")
    from .c05 import groupby_inputs_sorted
    n_g = groupby_inputs_sorted(ck, "C10.4", only_functions={"AlignmentResults.resolve",
                                                              "AlignmentResults.filterOutSubsequentAlignmentsForSingleQuery"})
    ck.floor("C10.4 groupby sites of the row grouping functions", n_g, 2)
    per_query_tasks(ck)
    from .c17 import frame_integrity
    frame_integrity(ck, "C10.8")
    run_global_conditions(ck)
    ck.clause("C10.9", "whether a molecule gets a record does not depend on how many other molecules are in the run: every path of "
                       "execute applies the same aligned-pairs test to its rows (as C01.1)")
    from .c01 import non_empty_filter
    non_empty_filter(ck, "C10.9")
    ck.clause("C10.7", "what happens to one query's rows does not stop the processing of the other queries' rows: the loops over row "
                       "groups have no early exit (as C08.5)")
    from ..report import RuleView
    from . import c08
    c08._resolve_conservation(RuleView(ck, {"C08.5": "C10.7"}))
    ck.clause("C10.13", "in 'best' mode a query's record is chosen by its own id alone: its joined record if it has one, else its best "
                        "single-pass record - selected by membership of the id, not by walking two lists in step (as C05.6)")
    from . import c05 as _c05
    _c05.run(RuleView(ck, {"C05.6": "C10.13"}))
    ck.clause("C10.11", "where the rest of a molecule can be placed does not depend on what other molecules of the run mapped to: the "
                        "second pass re-aligns against the references as received (as C08.13)")
    c08._aligned_rest(RuleView(ck, {"C08.13": "C10.11"}), {}, None)
    from ..rules.iters import run_iterator_rule
    # where one iterator runs over the data of several molecules or references: coordinators, seed selection, row grouping, readers
    # (inside the aligner / chainer / resolver an iterator only ever covers one query on one reference - no concern of this property)
    span = ("src.workflow_coordinator", "src.multi_pass_workflow_coordinator", "src.correlation.peaks_selector",
            "src.alignment.alignment_results", "src.program", "src.correlation.optical_map")
    it_fns = [f for f in ck.ctx.p.nontest_functions() if f.module.name in span or f.module.name.startswith("src.parsers.")]
    n_b = run_iterator_rule(ck, "C10.5", it_fns)
    ck.floor("C10.5 functions scanned for re-read single-use iterators", len(it_fns), 60)
    ck.clause("C10.12", "no lazily evaluated closure over a loop / comprehension variable is kept beyond its iteration (it would select "
                        "by the *last* reference or query id for all of them)")
    from ..rules.iters import run_late_binding_rule
    n_lb = run_late_binding_rule(ck, "C10.12", it_fns)
    ck.ok("C10.12", "run-level modules", "src/", f"{n_lb} functions: no kept lazy object refers to an iteration variable")
    ck.ok("C10.5", "run-level modules", "src/", f"{len(it_fns)} functions, {n_b} single-use iterators bound to a name, each read once "
          "(cursor idiom next(it) excepted)")


_EFP_CACHE = {}


def _empty_fast_path_is_equivalent(ck, fn, node, subject) -> bool:
    """The branch at `node` tests whether the row list `subject` is empty. It is harmless when, for every path on which the list is
    empty, what is returned and what is handed to saveAdditionalOutput equals what a path of the general branch returns / saves
    once the list is replaced by [] (`if not joined: return sorted(first)` in front of `return sorted(joined + [r for r in first if
    r.id not in [j.id for j in joined]])`). Anything that does not reduce to equality keeps the report."""
    key = (id(ck.ctx), fn.qualname)
    if key not in _EFP_CACHE:
        _EFP_CACHE[key] = [pa for pa in explore(ck, fn, unroll=(0, 1)) if pa.outcome in ("return", "fall")]
    paths = _EFP_CACHE[key]

    def summary(pa, subst):
        val = pa.value if pa.value is not None else T.NONE
        saves = tuple(e.term for e in pa.events if e.kind == "call" and e.term[0] == "app" and e.term[1].endswith(".saveAdditionalOutput"))
        out = []
        for t in (val,) + saves:
            if subst:
                t = T.substitute(t, {subject: ("list", ())})
            out.append(T.simplify_for_empty(t))
        return tuple(out)
    empty_side, general_side = [], []
    for pa in paths:
        here = [(c, tv) for c, tv, n0 in pa.state.assumptions if n0 is node]
        if not here:
            continue
        c, tv = here[0]
        c0, pos = T.positive(T.as_bool(c))
        if c0 != subject:
            return False
        truthy = tv if pos else (not tv)
        (general_side if truthy else empty_side).append(pa)
    if not empty_side or not general_side:
        return False
    general = {summary(pa, True) for pa in general_side}
    return all(summary(pa, False) in general for pa in empty_side)


def lists_not_changed_while_iterated(ck, rule):
    """`for x in xs: ... xs.remove(x)`: the list iterator keeps an index - after a removal the element that moved into the freed
    slot is skipped. Over a list that holds the items of ALL molecules (the flattened fragments, the rows of a pass), whether a
    molecule's item is examined then depends on its neighbour in the list - on the other molecules of the file."""
    from ..rules.common import run_reach
    ck.clause(rule, "no list is shortened or grown inside a `for` loop over that same list: the iterator skips the element behind every "
                    "removal, so what happens to one molecule's item depends on the item in front of it (another molecule's)")
    n = 0
    hit = False
    for f in run_reach(ck.ctx):
        if f.is_lambda:
            continue
        for lp in [x for x in ast.walk(f.node) if isinstance(x, ast.For)]:
            n += 1
            it = lp.iter
            if not isinstance(it, (ast.Name, ast.Attribute)):
                continue
            key = ast.unparse(it)
            for x in [y for st in lp.body for y in ast.walk(st)]:
                if isinstance(x, ast.Call) and isinstance(x.func, ast.Attribute) and ast.unparse(x.func.value) == key \
                        and x.func.attr in ("remove", "pop", "insert", "clear"):
                    # leaving the loop right after the change is the one safe use
                    blk = next((b for b in ast.walk(lp) if hasattr(b, "body") and isinstance(getattr(b, "body"), list) and any(
                        isinstance(s0, ast.Expr) and s0.value is x for s0 in b.body)), None)
                    after = []
                    if blk is not None:
                        idx = next(i for i, s0 in enumerate(blk.body) if isinstance(s0, ast.Expr) and s0.value is x)
                        after = blk.body[idx + 1:]
                    if after and isinstance(after[0], (ast.Break, ast.Return)):
                        continue
                    hit = True
                    ck.violation(rule, f"{short(f)}:{key}.{x.func.attr}", where(f, x),
                                 f"`{key}` is changed by .{x.func.attr}() inside the loop that iterates over it: the element behind every "
                                 "removal is never visited",
                                 found=f"for {ast.unparse(lp.target)} in {key}: ... {ast.unparse(x)[:80]}",
                                 required=f"a new list ([x for x in {key} if ...]) or a loop over a copy")
                if isinstance(x, ast.Delete) and any(isinstance(t, ast.Subscript) and ast.unparse(t.value) == key for t in x.targets):
                    hit = True
                    ck.violation(rule, f"{short(f)}:{key}.del", where(f, x), f"an element of `{key}` is deleted inside the loop over it",
                                 found=ast.unparse(x)[:80], required="a new list")
    ck.floor(rule + " for loops scanned on the run path", n, 12)
    if not hit:
        ck.ok(rule, "run path", "src/", f"{n} loops: none changes the list it iterates over")


def run_global_conditions(ck):
    """C10.10: in the coordinators' execute, no branch is taken on a property of a whole-run row list (is the list of all
    second-pass rows empty? how many rows are there?): such a test makes what is written for one molecule depend on whether
    some other molecule of the file produced a row"""
    from ..rules.modes import multipass_execute
    ck.clause("C10.10", "no decision of the coordinators looks at a whole-run list of rows (its emptiness, its length): what one "
                        "molecule gets must not depend on what the others produced")
    p = ck.ctx.p
    fns = [multipass_execute(ck), p.find_method("_WorkflowCoordinator", "execute"),
           p.find_method("_MultiPassWorkflowCoordinator", "getSecondPassAlignmentRows")]
    producers = ("_WorkflowCoordinator.execute", "getSecondPassAlignmentRows", "filterOutSubsequentAlignmentsForSingleQuery",
                 "AlignmentResults.resolve")
    n = 0
    seen = set()
    for fn in fns:
        for pa in explore(ck, fn, unroll=(0, 1)):
            n += 1
            for c, tv, node in pa.state.assumptions:
                c0, _ = T.positive(T.as_bool(c))
                subject = None
                if c0[0] in ("app", "call", "comp", "concat", "idx") and any(
                        x[0] == "app" and x[1].endswith(producers) for x in T.subterms(c0)):
                    subject = c0                      # truthiness of a row list
                elif c0[0] in ("lt", "le", "eq", "ne"):
                    lens = [x for x in T.subterms(c0) if x[0] == "call" and x[1] == "len" and any(
                        y[0] == "app" and y[1].endswith(producers) for y in T.subterms(x))]
                    if lens:
                        subject = lens[0]
                if subject is not None and subject[0] != "call" and _empty_fast_path_is_equivalent(ck, fn, node, c0):
                    continue                  # `if not rows: return <what the general code gives for no rows>`
                if subject is not None and (id(node), T.show(subject)[:80]) not in seen:
                    seen.add((id(node), T.show(subject)[:80]))
                    ck.violation("C10.10", short(fn) + ":run-global-test", where(fn, node),
                                 "a branch is taken on a whole-run list of rows: the record (or file) a molecule ends up in depends on "
                                 "whether the *other* molecules of the run produced rows", found=T.show(c)[:200],
                                 required="per-row / per-query decisions only")
    # `rows or <something else>`: the same decision written as a value
    for fn in fns:
        for pa in explore(ck, fn, unroll=(0, 1)):
            for t, facts, node, kind in path_terms(pa):
                for x in T.subterms(t):
                    if x[0] == "orelse" and len(x[1]) == 2 and x[1][1] != ("list", ()) and any(
                            y[0] == "app" and y[1].endswith(producers) for y in T.subterms(x[1][0])) and \
                            x[1][0][0] in ("app", "call", "comp", "concat", "idx") and (id(node), "orelse") not in seen:
                        seen.add((id(node), "orelse"))
                        ck.violation("C10.10", short(fn) + ":run-global-test", where(fn, node),
                                     "a whole-run list of rows is replaced by another one when it is empty (`rows or other`): what a "
                                     "molecule's record is written to depends on whether any *other* molecule produced a row of that kind",
                                     found=T.show(x)[:200], required="per-row / per-query decisions only")
    ck.floor("C10.10 coordinator paths examined", n, 5)
    if not seen:
        ck.ok("C10.10", "coordinators", fns[0].where, f"{n} paths of the coordinators' execute methods: no test on a whole-run row list")


def per_query_tasks(ck):
    """C10.6: tasks = [(referenceMaps, q) for q in queryMaps] with referenceMaps and queryMaps the parameters themselves"""
    from ..rules.common import parallel_map_site
    ck.clause("C10.6", "every parallel task is (all references as received, one query): nothing computed from the whole query list")
    ctx = ck.ctx
    fn, call, mapname, worker_lambda, worker = parallel_map_site(ctx)
    params = [pp.name for pp in fn.call_params()]
    if len(params) < 2:
        raise AnalysisError(f"{fn.where}: execute(referenceMaps, queryMaps) expected")
    refs, queries = V(params[0]), V(params[1])
    n = 0
    for pa in explore(ck, fn, unroll=(0, 1)):
        for t, facts, node, kind in path_terms(pa):
            for x in T.subterms(t):
                if x[0] == "call" and x[1].split(".")[0] == "p_tqdm" and len(x[2]) >= 2:
                    tasks = x[2][1]
                    while tasks[0] == "call" and tasks[1] in ("list", "tuple", "iter") and len(tasks[2]) == 1:
                        tasks = tasks[2][0]
                    n += 1
                    w = where(fn, node)
                    wk = x[2][0]
                    if tasks == queries and wk[0] == "lam" and wk[1] == 1 and wk[2][0] == "app":
                        # the references are bound into the worker (functools.partial / a closure), the tasks are the queries
                        a = dict(wk[2][3])
                        vals = list(a.values())
                        ck.judge(True, "C10.6", short(fn) + ":tasks:queries", w,
                                 "one task per query of the list received (no query is left out or depends on its position in a batch)",
                                 found=T.show(tasks)[:120], required=params[1])
                        ck.judge(refs in vals, "C10.6", short(fn) + ":tasks:references", w,
                                 "every query is aligned against the reference list as received: a list derived from the other queries "
                                 "(e.g. references filtered by the longest query) makes one query's record depend on the rest of the file",
                                 found=T.show(wk)[:200], required=params[0])
                        ck.judge(any(v[0] == "bv" for v in vals), "C10.6", short(fn) + ":tasks:query", w,
                                 "the worker's other argument is that query", found=T.show(wk)[:120])
                        continue
                    if not (tasks[0] == "comp" and len(tasks[3]) == 1 and tasks[2][0] == "tuple" and len(tasks[2][1]) == 2):
                        cpu_dep = any((y[0] == "attr" and y[2] == "numberOfCpus") or (y[0] == "call" and y[1].endswith("cpu_count"))
                                      for y in T.subterms(tasks))
                        if cpu_dep:
                            ck.violation("C10.6", short(fn) + ":tasks:queries", w,
                                         "the tasks are batches whose size is computed from the worker count: which queries are "
                                         "aligned (an incomplete last batch, the remainder of a division) depends on --cpus and on how "
                                         "many other queries there are", found=T.show(tasks)[:240],
                                         required=f"[({params[0]}, q) for q in {params[1]}]")
                            continue
                        raise AnalysisError(f"{w}: task list of the parallel map is not a comprehension of (references, query) pairs: "
                                            f"{T.show(tasks)[:160]}")
                    it, ifs = tasks[3][0]
                    r_t, q_t = tasks[2][1]
                    ck.judge(it == queries and not ifs, "C10.6", short(fn) + ":tasks:queries", w,
                             "one task per query of the list received (no query is left out or depends on its position in a batch)",
                             found=T.show(it)[:120] + (" if " + "; ".join(T.show(c)[:60] for c in ifs) if ifs else ""),
                             required=params[1])
                    ck.judge(r_t == refs, "C10.6", short(fn) + ":tasks:references", w,
                             "every query is aligned against the reference list as received: a list derived from the other queries "
                             "(e.g. references filtered by the longest query) makes one query's record depend on the rest of the file",
                             found=T.show(r_t)[:200], required=params[0])
                    # (that query, or something computed from that query alone - `q.trim()`: still one molecule per task; what such
                    #  a transformation does to second-pass fragments is C02.4's business, not this rule's)
                    own_only = q_t[0] != "bv" and any(y[0] == "bv" for y in T.subterms(q_t)) and \
                        not any(T.contains(q_t, other) for other in (queries, refs))
                    ck.judge(q_t[0] == "bv" or own_only, "C10.6", short(fn) + ":tasks:query", w, "the second component of a task is that query",
                             found=T.show(q_t)[:80])
        if n:
            break
    ck.floor("C10.6 parallel map call with a task list", n, 1)


# ---------------------------------------------------------------------------------------------------------- C10.1
def _is_module_level(f, name: str) -> bool:
    if name not in f.module.assigns:
        return False
    g = f
    while g is not None:
        if any(pp.name == name for pp in g.params):
            return False
        for x in ast.walk(g.node):
            if isinstance(x, ast.Name) and x.id == name and isinstance(x.ctx, ast.Store):
                return False
        g = g.parent
    return True


def _evidently_scalar(f, stmt) -> bool:
    """the stored value is a number / string by its own look: a literal, or a parameter annotated int / float / bool / str"""
    v = getattr(stmt, "value", None)
    if isinstance(v, ast.Constant) and (v.value is None or isinstance(v.value, (int, float, bool, str))):
        return True
    if isinstance(v, ast.Name):
        for pp in f.params:
            a = getattr(pp, "annotation", None)
            if pp.name == v.id and a is not None and ast.unparse(a) in ("int", "float", "bool", "str"):
                return True
    return False


def module_state(ck, fns=None, floor=120, skip_scalar=False):
    ctx = ck.ctx
    p = ctx.p
    if fns is None:
        fns, wreach, worker = result_path(ck)
    n = 0
    for f in fns:
        if f.is_lambda:
            continue
        n += 1
        for node in ast.walk(f.node):
            if isinstance(node, (ast.Global, ast.Nonlocal)) and isinstance(node, ast.Global):
                ck.violation("C10.1", short(f) + ":global", where(f, node), "`global` statement on the run path: state shared "
                             "between queries", found=ast.unparse(node))
        mk = E.memoised_with_incomplete_key(p, f)
        if mk is not None:
            ck.violation("C10.1", short(f) + ":memo-key", f.where,
                         f"`{short(f)}` is memoised ({mk[0]}) but reads self.{', self.'.join(mk[1])}, which is {mk[2]}: two objects that "
                         "differ only there are one cache key, and the later one is answered with the result computed for the earlier one",
                         found=f"@{mk[0]} on a method reading {mk[1]}", required="every input of a memoised function is part of its key")
        for pname, dflt, mnode in E.mutated_mutable_defaults(f):
            if not E.default_is_used(ctx, f, pname):
                continue
            ck.violation("C10.1", short(f) + ":mutable-default:" + pname, where(f, mnode),
                         f"parameter `{pname}` defaults to one shared mutable object ({ast.unparse(dflt)}) and is changed in place: what "
                         "one call leaves in it is there for the next call in the same process - results of later molecules contain "
                         "those of earlier ones", found=ast.unparse(mnode)[:120], required="a fresh object per call (default None)")
        for attr, stmt in E.attribute_stores(f):
            bt = ctx.t.type_of(f, attr.value)
            if isinstance(bt, (ClsT, ModT)):
                if skip_scalar and _evidently_scalar(f, stmt):
                    continue          # shared state all the same (C10.1), but a number cannot have "another length"
                ck.violation("C10.1", short(f) + ":store:" + ast.unparse(attr), where(f, stmt),
                             "class-level / module-level attribute written at run time: shared by every query handled later",
                             found=ast.unparse(stmt)[:120], required="no run-time write to shared objects")
        for node in ast.walk(f.node):
            tgts = []
            if isinstance(node, ast.Assign):
                tgts = node.targets
            elif isinstance(node, (ast.AugAssign, ast.AnnAssign)):
                tgts = [node.target]
            elif isinstance(node, ast.Delete):
                tgts = node.targets
            elif isinstance(node, ast.NamedExpr):
                tgts = [node.target]
            for tg in tgts:
                for t in ast.walk(tg):
                    if isinstance(t, ast.Subscript) and isinstance(t.value, ast.Name) and _is_module_level(f, t.value.id):
                        ck.violation("C10.1", short(f) + ":module-store:" + t.value.id, where(f, node),
                                     f"module-level object `{t.value.id}` is written at run time: it survives from one query to the "
                                     f"next inside a worker process (and is not shared between processes)",
                                     found=ast.unparse(node)[:140], required="no run-time write to module-level objects")
        for c in E.iter_calls(f):
            if isinstance(c.func, ast.Attribute) and c.func.attr in E.MUTATORS and isinstance(c.func.value, ast.Name):
                name = c.func.value.id
                is_local = any(isinstance(x, ast.Name) and x.id == name and isinstance(x.ctx, ast.Store) for x in ast.walk(f.node)) \
                    or any(pp.name == name for pp in f.params)
                g = f.parent
                while not is_local and g is not None:
                    is_local = any(pp.name == name for pp in g.params) or any(
                        isinstance(x, ast.Name) and x.id == name and isinstance(x.ctx, ast.Store) for x in ast.walk(g.node))
                    g = g.parent
                if not is_local and name in f.module.assigns:
                    ck.violation("C10.1", short(f) + ":mutate:" + name, where(f, c), "module-level object mutated at run time",
                                 found=ast.unparse(c)[:120])
    ck.floor("C10.1 functions scanned for run-time module/class writes", n, floor)
    if floor != 120:
        return
    # import-time singletons (listed, not run-time state)
    singles = []
    for m in p.nontest_modules():
        if not m.name.startswith("src."):
            continue
        for a in m.attr_assigns:
            singles.append(f"{m.relpath}:{a.lineno} {ast.unparse(a)[:60]}")
    ck.extra["import_time_singletons"] = singles
    ck.ok("C10.1", "run-path:module-state", worker.where, f"no run-time write to module/class-level objects in {n} functions; "
          f"{len(singles)} import-time singletons listed in evidence")


# ---------------------------------------------------------------------------------------------------------- C10.2
def _selection_by_id(ctx, t, source, elem_attr, wanted):
    """Is t a selection from `source` whose predicate is  element.<elem_attr> == wanted ?
    returns 'ok' | 'by-position' | 'other-predicate:<text>' | None (not recognised)"""
    inner = t
    if inner[0] == "call" and inner[1] == "next" and inner[2]:
        inner = inner[2][0]
    elif inner[0] == "idx" and inner[2][0] == "c":
        if inner[1] == source:
            return "by-position"
        inner = inner[1]
    while inner[0] == "call" and inner[1] in ("iter", "list") and inner[2]:
        inner = inner[2][0]
    if inner[0] == "comp" and len(inner[3]) == 1:
        it, ifs = inner[3][0]
        if it != source:
            return None
        bv = inner[2]
        if bv[0] != "bv":
            return None
        want = T.mk_eq(T.mk_attr(bv, elem_attr), wanted)
        if list(ifs) == [want]:
            return "ok"
        return "other-predicate:" + "; ".join(T.show(c) for c in ifs)
    if inner[0] == "call" and inner[1] == "filter" and len(inner[2]) == 2 and inner[2][1] == source and inner[2][0][0] == "lam":
        lam = inner[2][0]
        lv = min([x[1] for x in T.subterms(lam[2]) if x[0] == "bv"] or [0])
        want = T.mk_eq(T.mk_attr(("bv", lv), elem_attr), wanted)
        return "ok" if T.as_bool(lam[2]) == want else "other-predicate:" + T.show(lam[2])
    if inner[0] == "idx" and inner[1] == source:
        return "by-position"
    return None


def _is_direct_selection(t0, source):
    if t0[0] == "call" and t0[1] == "next" and t0[2]:
        inner = t0[2][0]
        while inner[0] == "call" and inner[1] in ("iter", "list") and inner[2]:
            inner = inner[2][0]
        return inner[0] in ("comp", "call") and T.contains(inner, source) and \
            (inner[0] != "comp" or any(it == source for it, _ in inner[3]))
    if t0[0] == "idx" and t0[1] == source:
        return True                       # the map at a position of the list, however the position is computed (`maps[id - 1]`)
    if t0[0] == "idx" and t0[2][0] == "c":
        if t0[1] == source:
            return True
        inner = t0[1]
        while inner[0] == "call" and inner[1] in ("iter", "list") and inner[2]:
            inner = inner[2][0]
        return inner[0] == "comp" and any(it == source for it, _ in inner[3])
    return False


def pair_parser_lookups(ck, rule):
    ctx = ck.ctx
    p = ctx.p
    # pair parsers
    for cname in ("XmapAlignmentPairWithDistanceParser", "SimulationAlignmentPairWithDistanceParser"):
        m = p.find_method(cname, "parse")
        n = 0
        seen = {}                 # lookup statement -> kind ('referenceId' / 'queryId') judged on some path
        others = {}               # lookup statement -> values it takes on the paths where it is not a selection from the list
        paths = explore(ck, m, unroll=(0, 1))
        for pa in paths:
            for e in pa.events:
                if e.kind != "assign" or not isinstance(e.node, ast.Assign):
                    continue
                hit = False
                for src, idname in ((self_attr("references"), "referenceId"), (self_attr("queries"), "queryId")):
                    if _is_direct_selection(e.term, src):
                        hit = True
                        if (id(e.node), idname) in seen:
                            continue
                        seen[(id(e.node), idname)] = e.node
                        r = _selection_by_id(ctx, e.term, src, "moleculeId", V(idname))
                        n += 1
                        w = where(m, e.node)
                        if r == "ok":
                            ck.ok(rule, f"{cname}.parse:{idname}", w, f"map looked up by moleculeId == {idname}")
                        elif r is None:
                            raise AnalysisError(f"{w}: map lookup idiom not recognised: {T.show(e.term)[:160]}")
                        else:
                            ck.violation(rule, f"{cname}.parse:{idname}", w, "map is not looked up by the matching molecule id",
                                         found=r if r != "by-position" else T.show(e.term)[:120],
                                         required=f"moleculeId == {idname}")
                if not hit:
                    others.setdefault(id(e.node), []).append((e.term, e.node))
        ck.floor(f"{rule} map lookups in {cname}.parse", n, 2)
        # a lookup statement that is a selection on one path must be one on every path: a memo (self.<cache>[id]) that answers on the
        # others is judged by what it is keyed with
        caches = {}
        for (nid, idname), node in seen.items():
            for t, nd in others.get(nid, []):
                w = where(m, nd)
                if t[0] == "idx" and t[1][0] == "attr" and t[1][1] == V("self"):
                    caches.setdefault(t[1], {}).setdefault(idname, (t, w))
                else:
                    raise AnalysisError(f"{w}: the map of a record is a list selection on one path and something else on another: {T.show(t)[:160]}")
        for cache, kinds in caches.items():
            if len(kinds) > 1:
                t, w = sorted(kinds.values(), key=lambda x: x[1])[0]
                ck.violation(rule, f"{cname}.parse:shared-cache", w,
                             f"reference and query maps are remembered in one table ({T.show(cache)}) keyed by the molecule id alone: a "
                             "query and a reference with the same id (query 1 on reference 1) answer for each other, and the "
                             "coordinates of the pairs come from the wrong molecule", found=T.show(t)[:120],
                             required="one lookup per kind of map (or a key that names the kind)")
            else:
                for idname, (t, w) in kinds.items():
                    ok = t[2] == V(idname)
                    ck.judge(ok, rule, f"{cname}.parse:{idname}:cache", w, f"a remembered map is asked for with {idname}",
                             found=T.show(t)[:120], required=f"{T.show(cache)}[{idname}]")

def lookups(ck):
    ctx = ck.ctx
    p = ctx.p
    fn = p.find_method("AlignmentResultRow", "getUnalignedFragments")
    queries = V(fn.call_params()[0].name)
    judged = 0
    seen = set()
    for pa in explore(ck, fn, unroll=(0, 1)):
        for e in pa.events:
            if e.kind == "assign" and isinstance(e.node, ast.Assign) and T.contains(e.term, queries) and id(e.node) not in seen:
                direct = _is_direct_selection(e.term, queries)
                if not direct:
                    continue
                seen.add(id(e.node))
                r = _selection_by_id(ctx, e.term, queries, "moleculeId", self_attr("queryId"))
                w = where(fn, e.node)
                judged += 1
                if r == "ok":
                    ck.ok("C10.2", short(fn) + ":original-query", w, "the original query is selected by moleculeId == self.queryId",
                          T.show(e.term)[:160])
                elif r == "by-position":
                    ck.violation("C10.2", short(fn) + ":original-query", w,
                                 "the original query is taken by its position in the list: with more than one query the "
                                 "fragments of another molecule are re-aligned", found=T.show(e.term)[:160],
                                 required="selection by moleculeId == self.queryId")
                elif r is not None:
                    ck.violation("C10.2", short(fn) + ":original-query", w, "the original query is selected by another predicate",
                                 found=r[:200], required="moleculeId == self.queryId")
                else:
                    raise AnalysisError(f"{w}: how the original query is found is not recognised: {T.show(e.term)[:160]}")
    if judged == 0:
        # a binary search over the query list presumes an order nothing guarantees (the list is what the reader - or any caller of
        # the library - hands over, in file order)
        from ..rules.common import path_terms as _pt
        for pa in explore(ck, fn, unroll=(0, 1)):
            for t, facts, node, kind in _pt(pa):
                hits = [x for x in T.subterms(t) if x[0] == "call" and x[1].split(".")[-1] in ("bisect_left", "bisect_right", "bisect", "searchsorted")
                        and x[2] and T.contains(x[2][0], queries)]
                if hits and id(node) not in seen:
                    seen.add(id(node))
                    judged += 1
                    ck.violation("C10.2", short(fn) + ":original-query", where(fn, node),
                                 "the original query is found by binary search over the query list: that presumes the list is sorted by "
                                 "molecule id, which depends on the order of the molecules in the file - for another order the fragments "
                                 "of another molecule (or none) are re-aligned", found=T.show(hits[0])[:160],
                                 required="selection by moleculeId == self.queryId")
    ck.floor("C10.2 original-query lookups in getUnalignedFragments", judged, 1)
    # the caller hands over the whole query list: a list pre-selected by the row's *position* (zip of rows and queries, an
    # index) pairs rows with the wrong molecule as soon as one query has no first-pass row
    sp = p.find_method("_MultiPassWorkflowCoordinator", "getSecondPassAlignmentRows")
    prm = [pp.name for pp in sp.call_params()]
    n_sites = 0
    for pa in explore(ck, sp, unroll=(0, 1)):
        for t, facts, node, kind in path_terms(pa):
            for x in T.subterms(t):
                got = None
                if x[0] == "app" and x[1] == fn.qualname:
                    got = dict(x[3]).get(fn.call_params()[0].name)
                elif x[0] == "mcall" and x[2] == fn.name and x[3]:
                    got = x[3][0]
                if got is None:
                    continue
                n_sites += 1
                whole = got[0] == "v" and got[1] in prm
                ck.judge(whole, "C10.2", short(sp) + ":queries-argument", where(sp, node),
                         "the second pass gives every row the whole query list to find its molecule in (by id)",
                         found=T.show(got)[:160], required="the queryMaps parameter itself")
        if n_sites:
            break
    ck.floor("C10.2 getUnalignedFragments call sites in the second pass", n_sites, 1)
    pair_parser_lookups(ck, "C10.2")


# ---------------------------------------------------------------------------------------------------------- C10.3/4
def id_filters(ck, rule_filter, rule_order):
    ctx = ck.ctx
    p = ctx.p
    from ..callgraph import bind_args
    from ..rules.common import reachable_only_from
    # the map-reading part of Program: its constructor and the private helpers (and their lambdas) only it reaches
    init = p.get_function("src.program:Program.__init__")
    readers = [f for f in p.nontest_functions() if f.module is init.module and reachable_only_from(ctx, f, "Program.__init__")]
    n = 0
    for site in [s for f in readers for s in ctx.cg.sites.get(f.qualname, [])]:
        for c in site.repo_callees():
            if c.kind == "fn" and c.fn.name in ("readReferences", "readQueries", "readQuery", "readReference"):
                n += 1
                side = "reference" if "eference" in c.fn.name else "query"
                params = c.params(p)
                b, _ = bind_args(params, site.node)
                fa = b.get("file")
                ia = [v for k, v in b.items() if k != "file"]
                ftoks = R.access_path_tokens(fa) if fa is not None else None
                itoks = R.access_path_tokens(ia[0]) if ia else None
                want = 1 if side == "reference" else 0
                okf = ftoks is not None and R.roles_of_tokens(ftoks).get("query/reference") == want
                ck.judge(okf, rule_filter, f"Program.__readMaps:{c.fn.name}:file", site.where, f"{c.fn.name} reads the {side} file",
                         found=ast.unparse(fa) if fa is not None else "None", required=f"self.args.{side}File")
                if not ia:
                    ck.violation(rule_filter, f"Program.__readMaps:{c.fn.name}:ids", site.where,
                                 f"the -{side[0]}Id filter is not passed to {c.fn.name}: a restricted run aligns every molecule",
                                 found=ast.unparse(site.node)[:120], required=f"self.args.{side}Ids")
                else:
                    oki = itoks is not None and R.roles_of_tokens(itoks).get("query/reference") == want and "ids" in itoks
                    ck.judge(oki, rule_filter, f"Program.__readMaps:{c.fn.name}:ids", site.where,
                             f"{c.fn.name} is restricted by the {side} ids", found=ast.unparse(ia[0]), required=f"self.args.{side}Ids")
    if True:
        # the reader method is handed to a helper as a value: helper(<file>, <ids>, cmapReader.readQueries) - the other arguments of
        # that call are the file and the ids the method is applied to, and must be of the method's side
        for f in readers:
            for node in ast.walk(f.node):
                if not isinstance(node, ast.Call):
                    continue
                refs = [a for a in list(node.args) + [k.value for k in node.keywords] if isinstance(a, ast.Attribute)
                        and a.attr in ("readReferences", "readQueries", "readQuery", "readReference")]
                if len(refs) != 1:
                    continue
                name = refs[0].attr
                side = "reference" if "eference" in name else "query"
                want = 1 if side == "reference" else 0
                others = [a for a in list(node.args) + [k.value for k in node.keywords] if a is not refs[0]]
                roles = []
                for a in others:
                    toks = R.access_path_tokens(a)
                    roles.append((a, toks, R.roles_of_tokens(toks).get("query/reference") if toks else None))
                if len(roles) != 2 or any(r is None for _, _, r in roles):
                    raise AnalysisError(f"{where(f, node)}: {name} is handed on as a value with arguments that are not understood: {ast.unparse(node)[:160]}")
                n += 1
                for a, toks, r in roles:
                    what = "ids" if "ids" in toks else "file"
                    ck.judge(r == want, rule_filter, f"Program.__readMaps:{name}:{what}", where(f, node),
                             f"{name} is applied to the {side} {what}", found=ast.unparse(a), required=f"self.args.{side}{'Ids' if what == 'ids' else 'File'}")
    if n < 2:
        # the reader calls sit behind closures / helpers taking callables: judge what Program.__init__ finally stores - the terms of
        # self.referenceMaps / self.queryMaps hold the reader applications with the arguments they receive
        from ..rules.common import expand_simple_apps, self_attr as _sa

        def term_tokens(t):
            if t[0] == "attr":
                b = term_tokens(t[1])
                return None if b is None else b + R.tokens(t[2])
            if t[0] == "v":
                return R.tokens(t[1])
            if t[0] == "orelse":
                return term_tokens(t[1][0])
            return None
        own_private = lambda callee: callee.cls is init.cls and callee is not init and callee.name.startswith("_")
        found = {}
        for pa in explore(ck, init, follow=own_private, unroll=(0, 1)):
            if pa.outcome not in ("fall", "return"):
                continue
            for e in pa.events:
                if e.kind == "setattr" and e.extra["target"] in (_sa("queryMaps"), _sa("referenceMaps")):
                    def reader_apps(t0):
                        return [x for x in T.subterms(t0) if x[0] == "app" and "CmapReader" in x[1] and
                                x[1].split(".")[-1] in ("readReferences", "readQueries", "readQuery", "readReference")]
                    hits = reader_apps(e.term) or reader_apps(expand_simple_apps(ck, e.term, 1))
                    for x in hits:
                        found[(x[1], x)] = e
            break
        if len(found) >= 2:
            n = 0
            for (qual, x), e in found.items():
                name = qual.split(".")[-1]
                side = "reference" if "eference" in name else "query"
                want = 1 if side == "reference" else 0
                vals = list(dict(x[3]).values())
                if len(vals) != 2:
                    raise AnalysisError(f"{where(init, e.node)}: {name} applied to {len(vals)} argument(s): {T.show(x)[:160]}")
                n += 1
                for v, what in zip(vals, ("file", "ids")):
                    toks = term_tokens(v)
                    if toks is None:
                        raise AnalysisError(f"{where(init, e.node)}: argument of {name} is not a plain access path: {T.show(v)[:120]}")
                    ck.judge(R.roles_of_tokens(toks).get("query/reference") == want, rule_filter, f"Program.__readMaps:{name}:{what}",
                             where(init, e.node), f"{name} is applied to the {side} {what}", found=T.show(v),
                             required=f"self.args.{side}{'Ids' if what == 'ids' else 'File'}")
    ck.floor(f"{rule_filter} reader calls in Program.__readMaps", n, 2)
    # public entry points hand the ids on to the private reader
    cr = p.find_class("CmapReader")
    from ..rules.common import cmap_reader_methods
    read = cmap_reader_methods(ck)[0]
    if read is None:
        raise AnalysisError(f"{cr.where}: CmapReader.__read not found")
    for name in ("readReferences", "readQueries"):
        m = cr.methods.get(name)
        if m is None:
            raise AnalysisError(f"{cr.where}: CmapReader.{name} not found")
        rets = [pa for pa in explore(ck, m) if pa.outcome == "return"]
        for pa in rets:
            v = pa.value
            ok = v[0] == "app" and v[1] == read.qualname
            if not ok:
                raise AnalysisError(f"{where(m, pa.node)}: {name} does not delegate to the private reader")
            a = dict(v[3])
            filep = m.call_params()[0].name
            idp = m.call_params()[1].name if len(m.call_params()) > 1 else None
            vals = list(a.values())
            file_ok = any(x == V(filep) for x in vals)
            ids = [x for x in vals if x != V(filep)]
            good = file_ok and idp is not None and len(ids) == 1 and any(x == V(idp) for x in T.subterms(ids[0]))
            ck.judge(good, rule_filter, f"CmapReader.{name}:delegation", where(m, pa.node),
                     "file and id filter are handed on to the reader", found=T.show(v)[:160])
    # inside the reader
    paths = explore(ck, read, unroll=(0, 1))
    ids = V(read.call_params()[1].name)
    n_f = 0
    for pa in paths:
        filtered = pa.facts.get(ids)
        # the grouped frame on this path
        grouped = None
        for t, facts, node, kind in path_terms(pa):
            for x in T.subterms(t):
                if x[0] == "mcall" and x[2] == "groupby":
                    grouped = (x, node)
        if grouped is None:
            # positively recognised: a path that hands the (filtered) rows to the per-molecule parser as they are - no grouping,
            # no sorting by id, and no removal of the None the parser answers for a molecule without labels
            parse0 = cmap_reader_methods(ck)[1]
            v0 = pa.value if pa.outcome == "return" else None
            lists0 = [y for y in T.subterms(v0) if y[0] == "list"] if v0 is not None else []
            direct = parse0 is not None and any(
                el[0] == "app" and el[1] == parse0.qualname for y in lists0 for el in y[1])
            if direct:
                ck.violation(rule_filter, "CmapReader.__read:ungrouped-path", where(read, pa.node),
                             "on this path the rows are handed to the per-molecule parser without grouping and its answer is returned as "
                             "it is: a molecule without labels comes back as [None] (the general path removes it), and the caller's "
                             "`[0]` / `.trim()` fails on it",
                             found=T.show(v0)[:160], required="the grouped, not-null-filtered result on every path")
                continue
            raise AnalysisError(f"{read.where}: groupby of the CMAP rows not found")
        gb, gnode = grouped
        gcol = gb[3][0] if gb[3] else None
        w = where(read, gnode)
        # the filter as a conditional expression (`rows[...] if ids else rows`): the two cases of the path
        if filtered is None and gb[1][0] == "select" and T.as_bool(gb[1][1]) in (T.as_bool(ids), ids):
            cases_f = [(True, gb[1][2]), (False, gb[1][3])]
        else:
            cases_f = [(filtered, gb[1])]
        for filtered, recv_f in cases_f:
            isin = [x for x in T.subterms(recv_f) if x[0] == "mcall" and x[2] == "isin"]
            gb = (gb[0], recv_f) + tuple(gb[2:])
            if filtered is True:
                n_f += 1
                if not isin:
                    ck.violation(rule_filter, "CmapReader.__read:filter", w, "ids were given but the rows are grouped without the "
                                 "isin filter", found=T.show(gb[1])[:160], required="maps[maps[col].isin(moleculeIds)] before groupby")
                else:
                    fcol = isin[0][1][2] if isin[0][1][0] == "idx" else None
                    given = isin[0][3][0] if len(isin[0][3]) == 1 else None
                    while given is not None and given[0] == "call" and given[1] in ("list", "tuple", "set", "frozenset", "sorted") and len(given[2]) == 1:
                        given = given[2][0]               # the ids materialised first: the same ids
                    ck.judge(fcol == gcol and given == ids, rule_filter, "CmapReader.__read:filter", w,
                             "filter column == grouping column; the filter uses the ids given and precedes grouping",
                             found=f"filter on {T.show(fcol) if fcol else None} with {T.show(isin[0][3][0])[:40] if isin[0][3] else None}, "
                                   f"grouped by {T.show(gcol) if gcol else None}", required="one column, the given ids")
            elif filtered is False:
                ck.judge(not isin, rule_filter, "CmapReader.__read:no-filter", w, "without ids every molecule is kept",
                         found="filtered anyway" if isin else None)
            ck.judge(gcol == C("CMapId"), rule_order, "CmapReader.__read:group-key", w, "rows are grouped by the molecule id column",
                     found=T.show(gcol) if gcol else "None", required="'CMapId'")
    if n_f == 0:
        ck.violation(rule_filter, "CmapReader.__read:filter", read.where,
                     "the reader never branches on the ids it is given: the -qId/-rId restriction is ignored (or applied even "
                     "when no ids are given)", found="no path on which `moleculeIds` is tested",
                     required="if moleculeIds: maps = maps[maps[col].isin(moleculeIds)]")
    # the id read back from a group uses the same column; positions are sorted
    parse = cmap_reader_methods(ck)[1]
    if parse is None:
        raise AnalysisError(f"{cr.where}: per-molecule parser not found")
    from ..rules.common import merged_return
    for merged_v, pa in [merged_return(ck, parse)]:
        news = [x for x in T.subterms(merged_v) if x[0] == "new" and x[1].endswith(":OpticalMap")]
        if not news:
            raise AnalysisError(f"{where(parse, pa.node)}: OpticalMap construction not found in the per-molecule parser")
        a = dict(news[0][2])
        mid = a.get("moleculeId")
        cols = [x[2] for x in T.subterms(mid) if x[0] == "idx" and x[2][0] == "c" and isinstance(x[2][1], str)] if mid else []
        ck.judge(cols == [C("CMapId")], rule_filter, "CmapReader.__parseCmapRowsGroup:id", where(parse, pa.node),
                 "the molecule id is read from the grouping column", found=T.show(mid)[:100] if mid else "None",
                 required="group['CMapId']")
        pos = a.get("positions")
        srt = pos is not None and any((x[0] == "mcall" and x[2] in ("sort_values",)) or
                                      (x[0] == "call" and x[1] in ("sorted", "numpy.sort", "numpy.msort", "numpy.unique"))   # unique sorts (what it drops is C17.9's matter)
                                      for x in T.subterms(pos))
        ck.judge(bool(srt), rule_order, "CmapReader.__parseCmapRowsGroup:sorted", where(parse, pa.node),
                 "label positions are sorted before they enter an OpticalMap (row order in the file cannot matter)",
                 found=T.show(pos)[:160] if pos else "None", required="sort_values() / sorted(...)")


def _m(name, cls):
    from ..loader import mangle
    return mangle(name, cls)

"""C09 - output independent of worker count and of the run (the structural core; R-EFFECT + R-FLOW).

  C09.1  the parallel map whose results become rows is order-preserving; no unordered map / as_completed anywhere on
         the run path (zero expected; a positive fixture must match on every run)
  C09.2  no nondeterministic API and no set construction on the output path (allow-list: socket.gethostname() feeding
         only the `# hostname=` comment line)
  C09.3  worker-persistent state is unobservable: attributes of long-lived objects written outside __init__ in
         worker-reachable code may flow into fields, but neither they nor the fields they taint are read in any
         decision on the result path
  C09.4  --cpus reaches only the pool size (and --disableProgressBar only the progress bar)
  C09.5  rows are put in a canonical order after the map (through AlignmentResults.create, see C05)
  C09.6  shared inputs are not mutated in worker-reachable code (OpticalMap frozen; no in-place mutation of positions or
         of the map lists)
Declined: byte identity of real runs (pickling, float summation order inside numpy/scipy).
"""
from __future__ import annotations

import ast
from typing import Dict, List, Set, Tuple

from ..loader import AnalysisError, FunctionInfo, mangle
from ..types import Inst, ListOf
from .. import terms as T
from ..callgraph import bind_args
from ..rules.common import explore, where, short, run_reach, parallel_map_site, path_terms
from ..rules import effects as E

FIXTURE_UNORDERED = """
from p_tqdm import p_uimap
def execute(self, referenceMaps, queryMaps):
    return [a for a in p_uimap(lambda x: self.align(*x), list((referenceMaps, q) for q in queryMaps), num_cpus=4)
            if a is not None]
"""
FIXTURE_NONDET = """
import random, time
def tie_break(rows):
    random.shuffle(rows)
    seen = set(r.queryId for r in rows)
    return sorted(rows, key=lambda r: (r.confidence, time.time()))
"""


def result_path(ck) -> Tuple[List[FunctionInfo], Set[str], FunctionInfo]:
    ctx = ck.ctx
    fn, call, mapname, worker_lambda, worker = parallel_map_site(ctx)
    # what the worker reaches on the way to its result: message handlers (diagnostics, plots) hand nothing back, so what only
    # they reach (benchmark readers, ...) cannot change a record
    wreach = ctx.cg.reach([worker, worker_lambda], barred_modules=("src.diagnostic", "src.plot", "src.compare", "sv."))
    fns = {f.qualname: f for f in run_reach(ctx)}
    for q in wreach:
        f = ctx.p.functions[q]
        if f.module.is_test or any(f.module.name.startswith(x) for x in ("src.diagnostic", "src.plot", "src.compare", "sv.")):
            continue
        fns[q] = f
    return list(fns.values()), wreach, worker


def run(ck):
    ck.clause("C09.1", "ordered parallel map; no unordered map on the run path")
    ck.clause("C09.2", "no nondeterministic API / set iteration on the output path")
    ck.clause("C09.3", "worker-persistent state and the fields it taints are never read in a decision")
    ck.clause("C09.4", "--cpus reaches only num_cpus=; --disableProgressBar only disable=")
    ck.clause("C09.5", "rows re-ordered canonically after the map")
    ck.clause("C09.6", "shared input maps are not mutated by workers")
    ordered_map(ck)
    nondeterminism(ck)
    persistent_state(ck, "C09.3")
    cpus_flow(ck)
    canonical_order(ck)
    shared_inputs(ck, "C09.6")
    ck.clause("C09.7", "the set of tasks does not depend on the worker count: one task per query (as C10.6)")
    from ..report import RuleView
    from .c10 import per_query_tasks
    per_query_tasks(RuleView(ck, {"C10.6": "C09.7"}))


# ---------------------------------------------------------------------------------------------------------- C09.1
def ordered_map(ck):
    ctx = ck.ctx
    fn, call, mapname, worker_lambda, worker = parallel_map_site(ctx)
    w = where(fn, call)
    if mapname in E.UNORDERED_MAPS:
        ck.violation("C09.1", short(fn) + ":map", w, f"rows come out of `{mapname}`, which yields results in completion "
                     "order: output depends on scheduling and on --cpus", found=mapname, required="p_map / p_imap")
    elif mapname in E.ORDERED_MAPS:
        ck.ok("C09.1", short(fn) + ":map", w, f"rows come out of the order-preserving `{mapname}`")
    else:
        raise AnalysisError(f"{w}: parallel map `{mapname}` is not in the table of ordered/unordered maps")
    # the progress bar of the map writes elapsed times and rates: it belongs on stderr (tqdm's default) - on stdout it lands in
    # front of / inside the XMAP that is written there when -o is omitted, and differs from run to run
    for k in call.keywords:
        if k.arg == "file":
            txt = ast.unparse(k.value)
            ck.judge(txt in ("sys.stderr", "stderr"), "C09.8", short(fn) + ":progress-bar", w,
                     "the progress bar is not written to standard output (the XMAP goes there without -o; the bar's timings differ "
                     "between runs and --cpus values)", found=f"file={txt}", required="no file= (stderr)")
    fns, wreach, _ = result_path(ck)
    n_calls = 0
    for f in fns:
        for c in E.iter_calls(f):
            n_calls += 1
            name = E.dotted_call_name(ctx, f, c)
            leaf = name.split(".")[-1] if name else (c.func.attr if isinstance(c.func, ast.Attribute) else None)
            if leaf in E.UNORDERED_MAPS and not (f is fn and c is call):
                ck.violation("C09.1", short(f) + ":" + leaf, where(f, c), f"unordered parallel construct `{leaf}` on the run path",
                             found=ast.unparse(c)[:120], required="order-preserving map")
    ck.floor("C09.1 call sites scanned on the result path", n_calls, 300)
    hits = E.unordered_map_calls_in_tree(ast.parse(FIXTURE_UNORDERED))
    if not hits:
        raise AnalysisError("C09.1 positive fixture (p_uimap) was not detected: the detector is broken")
    ck.ok("C09.1", "fixture:p_uimap", "sa/props/c09.py", "positive fixture detected (the rule's expected count on the tree is zero)",
          str(hits))


# ---------------------------------------------------------------------------------------------------------- C09.2
def _module_rng_names(f: FunctionInfo):
    """module-level names bound to a random-number generator object (random.Random(...), numpy.random.default_rng(...), ...)"""
    out = set()
    for st in f.module.tree.body:
        if isinstance(st, ast.Assign) and isinstance(st.value, ast.Call):
            txt = ast.unparse(st.value.func)
            if txt.startswith(("random.", "np.random.", "numpy.random.")) or txt in ("Random", "SystemRandom", "default_rng", "RandomState"):
                for t in st.targets:
                    if isinstance(t, ast.Name):
                        out.add(t.id)
    return out


def _nondet_calls(ctx, f: FunctionInfo):
    rngs = _module_rng_names(f)
    for c in E.iter_calls(f):
        if rngs and isinstance(c.func, ast.Attribute) and isinstance(c.func.value, ast.Name) and c.func.value.id in rngs:
            # a module-level generator object is per-process state that advances with every call: what a worker draws
            # depends on how many molecules it has handled before (a fixed seed does not help)
            yield f"{c.func.value.id}.{c.func.attr} (module-level random generator)", c
            continue
        name = E.dotted_call_name(ctx, f, c)
        if name is None:
            continue
        if name in E.NONDET_BUILTINS or any(name == p0.rstrip(".") or name.startswith(p0) for p0 in E.NONDET_PREFIXES):
            yield name, c


_ORDER_FREE = {"sorted", "len", "min", "max", "sum", "any", "all", "bool", "frozenset", "set"}


def _param_used_order_free(ctx, callee_fn: FunctionInfo, pname: str) -> bool:
    """every read of parameter `pname` in `callee_fn` is a membership test / an order-free consumer (one level, not re-bound)"""
    root = callee_fn.node
    parent = {}
    for n in ast.walk(root):
        for c in ast.iter_child_nodes(n):
            parent[id(c)] = n
    stores = [x for x in ast.walk(root) if isinstance(x, ast.Name) and x.id == pname and isinstance(x.ctx, ast.Store)]
    loads = [x for x in ast.walk(root) if isinstance(x, ast.Name) and x.id == pname and isinstance(x.ctx, ast.Load)]
    if stores:
        return False
    for x in loads:
        up = parent.get(id(x))
        if isinstance(up, ast.Compare) and x in up.comparators and all(isinstance(o, (ast.In, ast.NotIn)) for o in up.ops):
            continue
        if isinstance(up, ast.Call) and isinstance(up.func, ast.Name) and up.func.id in _ORDER_FREE - {"set", "frozenset"} and x in up.args:
            continue
        if isinstance(up, ast.Call) and isinstance(up.func, ast.Attribute) and up.func.value is x and \
                up.func.attr in ("issubset", "issuperset", "isdisjoint", "__contains__"):
            continue
        return False
    return True


def _set_constructions(f: FunctionInfo, ctx=None):
    """set displays / comprehensions / set() calls whose *iteration order* can reach the output: a set that is only asked
    `x in s`, measured, or handed to an order-free consumer (sorted, len, min, max, sum, any, all) is not reported"""
    from ..types import _iter_own_nodes
    root = f.node.body if f.is_lambda else f.node
    parent = {}
    for n in ast.walk(root):
        for c in ast.iter_child_nodes(n):
            parent[id(c)] = n

    def order_free_use(node) -> bool:
        up = parent.get(id(node))
        if isinstance(up, ast.Compare) and node in up.comparators and all(isinstance(o, (ast.In, ast.NotIn)) for o in up.ops):
            return True
        if (isinstance(up, (ast.If, ast.While, ast.IfExp)) and up.test is node) or \
                (isinstance(up, ast.UnaryOp) and isinstance(up.op, ast.Not)):
            return True                          # asked whether it is empty: no order is read
        if isinstance(up, ast.BoolOp):
            return order_free_use(up)            # `a and s` / `s or t`: judged by what consumes the result
        if isinstance(up, ast.Call) and isinstance(up.func, ast.Name) and up.func.id in _ORDER_FREE and node in up.args:
            return True
        if isinstance(up, ast.BinOp) and isinstance(up.op, (ast.Sub, ast.BitAnd, ast.BitOr, ast.BitXor)):
            return order_free_use(up)            # set algebra: judged by what consumes the result
        if isinstance(up, ast.Call) and isinstance(up.func, ast.Attribute) and up.func.value is node and \
                up.func.attr in ("difference", "union", "intersection", "symmetric_difference", "issubset", "issuperset", "isdisjoint"):
            return up.func.attr.startswith("is") or order_free_use(up)
        if isinstance(up, ast.Attribute) and up.value is node and up.attr in (
                "difference", "union", "intersection", "symmetric_difference", "issubset", "issuperset", "isdisjoint"):
            call = parent.get(id(up))
            if isinstance(call, ast.Call) and call.func is up:
                return up.attr.startswith("is") or order_free_use(call)
        if isinstance(up, ast.Assign) and len(up.targets) == 1 and isinstance(up.targets[0], ast.Name) and up.value is node \
                and isinstance(node, (ast.BinOp, ast.Call)):
            # the result of set algebra bound to a name: judged by how the name is used
            nm = up.targets[0].id
            st0 = [x for x in ast.walk(root) if isinstance(x, ast.Name) and x.id == nm and isinstance(x.ctx, ast.Store)]
            ld0 = [x for x in ast.walk(root) if isinstance(x, ast.Name) and x.id == nm and isinstance(x.ctx, ast.Load)]
            return len(st0) == 1 and bool(ld0) and all(order_free_use(x) for x in ld0)
        if isinstance(up, ast.Attribute) and up.value is node and up.attr in ("add", "update", "discard", "remove", "clear",
                                                                              "__contains__", "difference_update", "intersection_update"):
            call = parent.get(id(up))
            if isinstance(call, ast.Call) and call.func is up and isinstance(parent.get(id(call)), ast.Expr):
                return True              # filling / emptying the set as a statement: no order is read
        if isinstance(up, ast.keyword):
            up = parent.get(id(up))
        if ctx is not None and isinstance(up, ast.Call) and not f.is_lambda:
            # handed to a repository function that only asks `x in s` of that parameter
            callees = ctx.cg.resolve_call(f, up)
            if callees and all(c.kind == "fn" and c.fn is not None for c in callees):
                for c in callees:
                    params = c.params(ctx.p)
                    binding, exact = bind_args(params, up) if params is not None else ({}, False)
                    names = [k for k, v in binding.items() if v is node]
                    if not exact or len(names) != 1 or not _param_used_order_free(ctx, c.fn, names[0]):
                        return False
                return True
        return False

    def harmless(node) -> bool:
        if order_free_use(node):
            return True
        up = parent.get(id(node))
        if isinstance(up, ast.Assign) and len(up.targets) == 1 and isinstance(up.targets[0], ast.Name) and up.value is node:
            name = up.targets[0].id
            stores = [x for x in ast.walk(root) if isinstance(x, ast.Name) and x.id == name and isinstance(x.ctx, ast.Store)]
            loads = [x for x in ast.walk(root) if isinstance(x, ast.Name) and x.id == name and isinstance(x.ctx, ast.Load)]
            return len(stores) == 1 and bool(loads) and all(order_free_use(x) for x in loads)
        return False
    nodes = ast.walk(f.node.body) if f.is_lambda else _iter_own_nodes(f.node)
    for n in nodes:
        if isinstance(n, (ast.Set, ast.SetComp)) or (isinstance(n, ast.Call) and isinstance(n.func, ast.Name)
                                                      and n.func.id in ("set", "frozenset")):
            if not harmless(n):
                yield n


def nondeterminism(ck):
    ctx = ck.ctx
    fns, wreach, _ = result_path(ck)
    n = 0
    for f in fns:
        n += 1
        for name, c in _nondet_calls(ctx, f):
            if name == "socket.gethostname":
                # allowed only inside a literal comment line "# hostname=..."
                ok = False
                for node in ast.walk(f.node):
                    if isinstance(node, ast.JoinedStr) and any(x is c for x in ast.walk(node)):
                        first = node.values[0]
                        ok = isinstance(first, ast.Constant) and str(first.value).startswith("#")
                    # "# hostname={}".format(gethostname())  /  "# hostname=" + gethostname()  /  "# hostname=%s" % gethostname()
                    if isinstance(node, ast.Call) and isinstance(node.func, ast.Attribute) and node.func.attr == "format" \
                            and isinstance(node.func.value, ast.Constant) and str(node.func.value.value).startswith("#") \
                            and any(x is c for a in node.args for x in ast.walk(a)):
                        ok = True
                    if isinstance(node, ast.BinOp) and isinstance(node.op, (ast.Add, ast.Mod)) and isinstance(node.left, ast.Constant) \
                            and str(node.left.value).startswith("#") and any(x is c for x in ast.walk(node.right)):
                        ok = True
                ck.judge(ok, "C09.2", short(f) + ":socket.gethostname", where(f, c),
                         "host name feeds only a `#` comment line of the header", found=ast.unparse(c))
                continue
            ck.violation("C09.2", short(f) + ":" + name, where(f, c), f"nondeterministic API `{name}` on the output path",
                         found=ast.unparse(c)[:120], required="no run-dependent value on the path to the XMAP files")
        for s in _set_constructions(f, ctx):
            ck.violation("C09.2", short(f) + ":set", where(f, s), "a set is built on the output path: its iteration order "
                         "depends on hashing (AlignedPair.__hash__ includes the per-process `source` counter)",
                         found=ast.unparse(s)[:120], required="lists / dicts (insertion ordered) on the output path")
    # ---- C09.8: the XMAP may go to stdout (no -o): nothing else may be written there from the worker processes - their output
    # is flushed when a worker exits, in scheduling order
    ck.clause("C09.9", "every output file is created afresh (mode 'w'): a repetition of the same command writes the same bytes, not one "
                       "more copy behind the previous run's (as C08.2)")
    from . import c08 as _c08
    from ..report import RuleView as _RV99
    _c08._file_naming(_RV99(ck, {"C09.9": "C09.9"}, only_constructs=(":mode", ":name", ":source", ":template")), rule="C09.9")   # not ':stream': an additional XMAP sent to the main stream is the same bytes on every run
    ck.clause("C09.8", "worker processes write nothing to standard output (the XMAP may be written there; worker output arrives in "
                       "scheduling order)")
    n_w = 0
    for f in fns:
        if f.qualname not in wreach or f.is_lambda:
            continue
        n_w += 1
        for c in E.iter_calls(f):
            fn_txt = ast.unparse(c.func)
            to_stdout = False
            if isinstance(c.func, ast.Name) and c.func.id == "print":
                fkw = [k for k in c.keywords if k.arg == "file"]
                to_stdout = not fkw or ast.unparse(fkw[0].value) in ("sys.stdout", "stdout")
            elif fn_txt in ("sys.stdout.write", "sys.stdout.writelines", "stdout.write"):
                to_stdout = True
            if to_stdout:
                ck.violation("C09.8", short(f) + ":stdout", where(f, c), "a worker-side function writes to standard output: with the "
                             "XMAP on stdout these lines land in the file in the order the workers exit",
                             found=ast.unparse(c)[:120], required="no print / sys.stdout.write in code run by the workers "
                             "(warnings / logging to stderr at most)")
    ck.floor("C09.8 worker-side functions scanned", n_w, 100)
    ck.floor("C09.2 functions scanned on the result path", n, 150)
    # positive fixture
    tree = ast.parse(FIXTURE_NONDET)
    found = []
    for node in ast.walk(tree):
        if isinstance(node, ast.Call):
            txt = ast.unparse(node.func)
            if any(txt == p0.rstrip(".") or txt.startswith(p0) for p0 in E.NONDET_PREFIXES) or txt in ("set",):
                found.append(txt)
    if not {"random.shuffle", "time.time", "set"} <= set(found):
        raise AnalysisError(f"C09.2 positive fixture not detected: {found}")
    ck.ok("C09.2", "fixture:nondeterminism", "sa/props/c09.py", "positive fixture detected (expected count on the tree is zero)",
          str(sorted(set(found))))


# ---------------------------------------------------------------------------------------------------------- C09.3
def persistent_state(ck, rule):
    ctx = ck.ctx
    p = ctx.p
    fns, wreach, worker = result_path(ck)
    coord = p.find_class("_WorkflowCoordinator")
    ll = E.long_lived_classes(ctx, coord)
    ck.floor(f"{rule} long-lived classes", len(ll), 8)
    ck.extra["long_lived_classes"] = sorted(c.name for c in ll)
    writes = E.persistent_state(ctx, wreach, ll)
    # container mutation of attributes of long-lived objects (self.cache[k] = v, self.items.append(x))
    for cls in ll:
        for m in cls.methods.values():
            if m.qualname not in wreach or m.name == "__init__" or not m.self_name:
                continue
            for n in ast.walk(m.node):
                tgt = None
                if isinstance(n, ast.Call) and isinstance(n.func, ast.Attribute) and n.func.attr in E.MUTATORS:
                    tgt = n.func.value
                elif isinstance(n, (ast.Assign, ast.AugAssign)):
                    for t in (n.targets if isinstance(n, ast.Assign) else [n.target]):
                        if isinstance(t, ast.Subscript):
                            tgt = t.value
                if isinstance(tgt, ast.Attribute) and isinstance(tgt.value, ast.Name) and tgt.value.id == m.self_name:
                    writes.append((cls, mangle(tgt.attr, cls.name), m, n))
    seen_memo = set()
    # module-level objects written in worker-reachable code are worker-persistent state as well
    from .c10 import _is_module_level
    for f in fns:
        if f.qualname not in wreach or f.is_lambda:
            continue
        mk = E.memoised_with_incomplete_key(p, f)
        if mk is not None:
            ck.violation(rule, f"{short(f)}:memo-key", f.where,
                         f"`{short(f)}` is memoised ({mk[0]}) in worker-reachable code but reads self.{', self.'.join(mk[1])}, which is "
                         f"{mk[2]}: what it returns for one object depends on which equal-looking object the process saw first",
                         found=f"@{mk[0]} on a method reading {mk[1]}", required="every input of a memoised function is part of its key")
        for pname, dflt, mnode in E.mutated_mutable_defaults(f):
            if not E.default_is_used(ctx, f, pname):
                continue
            ck.violation(rule, f"{short(f)}:mutable-default:{pname}", where(f, mnode),
                         f"parameter `{pname}` defaults to one shared mutable object ({ast.unparse(dflt)}) that worker code changes in "
                         "place: per-process state that outlives a query - what a worker returns depends on which queries it saw before "
                         "(so on --cpus and scheduling)", found=ast.unparse(mnode)[:120], required="a fresh object per call (default None)")
        # a class-level (or module) attribute written while a worker handles a molecule: one value per worker process, whatever the
        # objects that are pickled anew for every task
        from ..types import ClsT as _ClsT, ModT as _ModT
        for attr, stmt in E.attribute_stores(f):
            try:
                bt = ctx.t.type_of(f, attr.value)
            except RecursionError:  # pragma: no cover
                bt = None
            if isinstance(bt, (_ClsT, _ModT)):
                ck.violation(rule, short(f) + ":store:" + ast.unparse(attr), where(f, stmt),
                             f"`{ast.unparse(attr)}` is a class-level / module-level attribute written in worker-reachable code: it "
                             "lives as long as the worker process, so what a molecule gets depends on which molecules the same "
                             "worker handled before - on --cpus and on scheduling", found=ast.unparse(stmt)[:120],
                             required="no run-time write to class-level / module-level state in the worker")
        for node in ast.walk(f.node):
            tgts = node.targets if isinstance(node, ast.Assign) else ([node.target] if isinstance(node, (ast.AugAssign, ast.NamedExpr)) else [])
            name = None
            for tg in tgts:
                for t in ast.walk(tg):
                    if isinstance(t, ast.Subscript) and isinstance(t.value, ast.Name) and _is_module_level(f, t.value.id):
                        name = t.value.id
            if isinstance(node, ast.Call) and isinstance(node.func, ast.Attribute) and node.func.attr in E.MUTATORS \
                    and isinstance(node.func.value, ast.Name) and _is_module_level(f, node.func.value.id):
                name = node.func.value.id
            if name:
                users = [g for g in fns if g.module is f.module and not g.is_lambda and any(
                    isinstance(x, ast.Name) and x.id == name for x in ast.walk(g.node))]
                mi = E.memo_idiom(p, f, name) if users == [f] else None
                if mi is not None and not mi[0]:
                    if (name, f.qualname) not in seen_memo:
                        seen_memo.add((name, f.qualname))
                        ck.ok(rule, f"{f.module.name.split('.')[-1]}.{name}@{short(f)}:memo", where(f, node),
                              f"`{name}` is a memo whose key ({mi[1]}) covers every input of the cached value: what it returns does not "
                              "depend on what was asked before", mi[2])
                    continue
                reads = [x for g in fns if g.module is f.module and not g.is_lambda for x in ast.walk(g.node)
                         if isinstance(x, ast.Name) and x.id == name and isinstance(x.ctx, ast.Load)]
                ck.violation(rule, f"{f.module.name.split('.')[-1]}.{name}@{short(f)}", where(f, node),
                             f"module-level object `{name}` is written in worker-reachable code ({len(reads)} read(s) in the module): "
                             f"per-process state that outlives a query - results depend on which queries a worker saw before",
                             found=ast.unparse(node)[:140], required="no worker-persistent state that is read back")
    state: Dict[Tuple[str, str], list] = {}
    for cls, attr, m, stmt in writes:
        state.setdefault((cls.qualname, attr), []).append((cls, m, stmt))
    ck.extra["worker_persistent_state"] = sorted(f"{short(q)}.{a}" for q, a in state)
    if not state:
        ck.ok(rule, "worker-persistent-state", worker.where, "no attribute of a long-lived object is written in "
              "worker-reachable code")
        return
    tainted_fields: Dict[str, Tuple[str, str]] = {}
    by_q = {f.qualname: f for f in fns}
    for (cq, attr), ws in state.items():
        cls = p.classes[cq]
        store_stmts = [stmt for _, _, stmt in ws]
        n_reads = 0
        # a memo (self.<attr>[K] = E, asked with the same K) whose key covers every input of E is not state in the sense of this
        # clause: what it returns does not depend on the calls before; one whose key leaves an input out is reported as such
        src_attr = "__" + attr[len("_" + cls.name + "__"):] if attr.startswith("_" + cls.name + "__") else attr
        users = [f for f in fns if not f.is_lambda and f.name not in ("__init__", "__post_init__") and any(
            isinstance(x, ast.Attribute) and x.attr == src_attr and isinstance(x.value, ast.Name) and x.value.id == f.self_name
            for x in ast.walk(f.node))]
        if len(users) == 1:
            mi = E.memo_idiom(p, users[0], f"{users[0].self_name}.{src_attr}")
            if mi is not None:
                f0 = users[0]
                if not mi[0]:
                    ck.ok(rule, f"{cls.name}.{attr}@{short(f0)}:memo", f0.where,
                          f"`self.{src_attr}` is a memo whose key ({mi[1]}) covers every input of the cached value", mi[2])
                else:
                    ck.violation(rule, f"{cls.name}.{attr}@{short(f0)}:memo-key", f0.where,
                                 f"`self.{src_attr}` remembers `{mi[2]}` under the key ({mi[1]}), which leaves out {', '.join(mi[0])}: "
                                 "a later call that agrees in the key but not in those inputs is answered with the earlier result "
                                 "(the object lives for the whole run and serves every query of a worker)",
                                 found=f"key ({mi[1]})", required="every input of the cached value is part of the key")
                continue
        for f in fns:
            if f.is_lambda:
                continue
            for node in ast.walk(f.node):
                if not (isinstance(node, ast.Attribute) and isinstance(node.ctx, ast.Load)
                        and mangle(node.attr, f.enclosing_class.name if f.enclosing_class else None) == attr):
                    continue
                if p.enclosing_function(f.module, node) is not f:
                    continue
                # receiver must be (or may be) an instance of cls
                rt = ctx.t.type_of(f, node.value)
                if isinstance(rt, Inst) and not (p.is_subclass(rt.cls, cls) or p.is_subclass(cls, rt.cls)):
                    continue
                n_reads += 1
                construct = f"{cls.name}.{attr}@{short(f)}"
                w = where(f, node)
                # (i) part of its own update
                if any(node in list(ast.walk(s)) for s in store_stmts):
                    ck.ok(rule, construct + ":self-update", w, "read only to update the counter itself")
                    continue
                # (ii) argument of a constructor -> tainted field
                landed = _lands_in_field(ctx, f, node)
                if landed is not None:
                    tainted_fields[landed[1]] = landed
                    ck.ok(rule, construct + ":flows-to-field", w,
                          f"worker-persistent value is stored in field {landed[0]}.{landed[1]} (tracked below)")
                    continue
                ck.violation(rule, construct + ":read", w,
                             f"worker-persistent state `{cls.name}.{attr}` (it survives from one query to the next inside a "
                             f"worker process) is read into a computation: results depend on which queries the worker saw before",
                             found=_stmt_text(f, node), required="write-only, or copied into a field that nothing decides on")
        ck.extra.setdefault("persistent_state_reads", {})[f"{cls.name}.{attr}"] = n_reads
    # reads of tainted fields on the result path
    for field, (cname, _) in tainted_fields.items():
        n_reads = 0
        for f in fns:
            if f.is_lambda:
                host = f
            nodes = ast.walk(f.node)
            for node in nodes:
                if not (isinstance(node, ast.Attribute) and isinstance(node.ctx, ast.Load) and node.attr == field):
                    continue
                if p.enclosing_function(f.module, node) is not f:
                    continue
                n_reads += 1
                construct = f"{cname}.{field}@{short(f)}"
                w = where(f, node)
                top = f
                while top.parent is not None:
                    top = top.parent
                if top.name in ("__repr__", "__str__"):
                    ck.ok(rule, construct, w, "tainted field read only to build a text representation")
                    continue
                if top.name == "__hash__":
                    ck.ok(rule, construct, w, "tainted field takes part in __hash__; no set is built on the result path "
                          "(C09.2), so hash values are never observed")
                    ck.assume("no dict keyed by AlignedPair objects is iterated on the result path (none exists today; sets "
                              "are reported by C09.2)")
                    continue
                landed = _lands_in_field(ctx, f, node)
                if landed is not None and landed[1] in tainted_fields:
                    ck.ok(rule, construct, w, f"tainted field copied into {landed[0]}.{landed[1]} (same field of a copy)")
                    continue
                ck.violation(rule, construct, w,
                             f"field `{field}` carries a per-process counter (AlignerEngine.iteration) and is read in "
                             f"`{short(f)}`: comparisons, sort keys or scores would depend on worker history",
                             found=_stmt_text(f, node), required="never read outside __repr__/__hash__/copy constructors")
        ck.extra.setdefault("tainted_field_reads", {})[field] = n_reads
    # the dispatcher discards handler results and handlers do not write into the payload
    disp = p.find_method("Dispatcher", "dispatch")
    uses_result = False
    for n in ast.walk(disp.node):
        if isinstance(n, (ast.Return,)) and n.value is not None:
            uses_result = True
        if isinstance(n, ast.Assign) and "handle" in ast.unparse(n.value):
            uses_result = True
    ck.judge(not uses_result, rule, "Dispatcher.dispatch", disp.where, "the dispatcher discards what extensions return",
             found="uses handler result" if uses_result else None)
    ext = p.find_class("Extension")
    for sub in p.all_subclasses(ext):
        if sub.module.is_test or not sub.module.name.startswith("src."):
            continue
        h = sub.methods.get("handle")
        if h is None:
            continue
        msg = h.call_params()[0].name if h.call_params() else None
        bad = [stmt for attr, stmt in E.attribute_stores(h) if msg and any(isinstance(x, ast.Name) and x.id == msg
                                                                           for x in ast.walk(attr.value))]
        ck.judge(not bad, rule, short(h) + ":payload", h.where, "the handler does not write into the message payload",
                 found=ast.unparse(bad[0])[:100] if bad else None)


def _stmt_text(f: FunctionInfo, node: ast.AST) -> str:
    best = None
    for s in ast.walk(f.node):
        if isinstance(s, ast.stmt) and any(x is node for x in ast.walk(s)):
            if best is None or len(ast.unparse(s)) < len(ast.unparse(best)):
                best = s
    return ast.unparse(best)[:160] if best is not None else ast.unparse(node)


def _lands_in_field(ctx, f: FunctionInfo, node: ast.AST):
    """If `node` is directly an argument of a constructor / __init__ call, return (class name, attribute it is stored in)."""
    for c in ast.walk(f.node):
        if not isinstance(c, ast.Call):
            continue
        direct = [a for a in c.args if a is node] + [k.value for k in c.keywords if k.value is node]
        if not direct:
            continue
        for callee in ctx.cg.resolve_call(f, c):
            cls = None
            params = None
            if callee.kind == "ctor":
                cls = callee.cls
                params = callee.params(ctx.p)
            elif callee.kind == "fn" and callee.fn.name == "__init__" and callee.fn.cls is not None:
                cls = callee.fn.cls
                params = callee.fn.call_params()
            if cls is None or params is None:
                continue
            binding, _ = bind_args(params, c)
            for pname, arg in binding.items():
                if arg is node:
                    m = E.init_param_to_attr(ctx, cls)
                    if pname in m:
                        return (cls.name, m[pname])
    return None


# ---------------------------------------------------------------------------------------------------------- C09.4
def cpus_flow(ck):
    ctx = ck.ctx
    fn, call, mapname, worker_lambda, worker = parallel_map_site(ctx)
    table = {"numberOfCpus": "num_cpus", "disableProgressBar": "disable"}
    seen = {k: 0 for k in table}
    # a private helper whose result is handed over as that keyword (and nowhere else) is part of the keyword's expression
    via_helper = {k: set() for k in table.values()}
    for k in call.keywords:
        if k.arg in via_helper:
            for c0 in [x for x in ast.walk(k.value) if isinstance(x, ast.Call)]:
                for cal in ctx.cg.resolve_call(fn, c0):
                    if cal.kind == "fn" and cal.fn.name.startswith("_") and len(ctx.cg.sites_calling(cal.fn)) == 1:
                        via_helper[k.arg].add(cal.fn.qualname)
    for f in ctx.p.nontest_functions():
        if not f.module.name.startswith("src.") or f.module.name == "src.args" or f.is_lambda:
            continue
        for node in ast.walk(f.node):
            if isinstance(node, ast.Attribute) and node.attr in table and isinstance(node.ctx, ast.Load):
                if ctx.p.enclosing_function(f.module, node) is not f:
                    continue
                seen[node.attr] += 1
                ok = (any(k.arg == table[node.attr] and k.value is node for k in call.keywords) and f is fn) or \
                    f.qualname in via_helper[table[node.attr]] or \
                    (f is fn and any(k.arg == table[node.attr] and any(x is node for x in ast.walk(k.value)) for k in call.keywords))
                ck.judge(ok, "C09.4", f"{short(f)}:{node.attr}", where(f, node),
                         f"args.{node.attr} is used only as `{table[node.attr]}=` of the parallel map",
                         found=_stmt_text(f, node)[:140], required=f"{mapname}(..., {table[node.attr]}=self.args.{node.attr})")
    ck.floor("C09.4 reads of args.numberOfCpus", seen["numberOfCpus"], 1)
    # the map's work list is one item per query, independent of the cpu count
    work = call.args[1] if len(call.args) > 1 else None
    ok = work is not None and "numberOfCpus" not in ast.unparse(work)
    ck.judge(ok, "C09.4", short(fn) + ":work-list", where(fn, call), "the work list does not depend on the cpu count",
             found=ast.unparse(work)[:120] if work is not None else "None")


# ---------------------------------------------------------------------------------------------------------- C09.5
def canonical_order(ck):
    ctx = ck.ctx
    run_fn = ctx.p.get_function("src.program:Program.run")
    n = 0
    for pa in explore(ck, run_fn, unroll=(0, 1)):
        for e in pa.events:
            if e.kind == "call" and e.term[0] == "app" and e.term[1].endswith("XmapReader.writeAlignments"):
                res = dict(e.term[3]).get("alignmentResults")
                n += 1
                ok = res is not None and res[0] == "app" and res[1].endswith("AlignmentResults.create")
                ck.judge(ok, "C09.5", "Program.run:canonical-order", where(run_fn, e.node),
                         "main-file rows pass AlignmentResults.create (sorted by query id, best first; shape checked by C05.2)",
                         found=T.show(res)[:120] if res else "None")
    ck.floor("C09.5 main-file sinks", n, 1)


# ---------------------------------------------------------------------------------------------------------- C09.6
def shared_inputs(ck, rule):
    ctx = ck.ctx
    p = ctx.p
    om = p.find_class("OpticalMap")
    frozen = any("frozen=True" in d.replace(" ", "") for d in om.decorators)
    ck.judge(frozen, rule, "OpticalMap:frozen", om.where, "OpticalMap is a frozen dataclass (its fields cannot be rebound)",
             found=str(om.decorators), required="@dataclass(frozen=True)")
    pw = p.find_class("PositionWithSiteId")
    ck.judge(any("frozen=True" in d.replace(" ", "") for d in pw.decorators), rule, "PositionWithSiteId:frozen", pw.where,
             "PositionWithSiteId is frozen", found=str(pw.decorators))
    fns, wreach, worker = result_path(ck)
    n = 0
    shared_names = {"positions", "referenceMaps", "queryMaps", "references", "queries"}
    for f in fns:
        if f.qualname not in wreach or f.is_lambda:
            continue
        for c in E.iter_calls(f):
            if isinstance(c.func, ast.Attribute) and c.func.attr in E.MUTATORS:
                recv = c.func.value
                last = recv.attr if isinstance(recv, ast.Attribute) else (recv.id if isinstance(recv, ast.Name) else None)
                n += 1
                if isinstance(recv, ast.Attribute) and last in shared_names:
                    rt = ctx.t.type_of(f, recv.value)
                    if isinstance(rt, Inst) and rt.cls.name in ("_AlignmentSegmentBuilder", "_ConflictingSegmentCharacteristics"):
                        continue
                    ck.violation(rule, short(f) + ":" + ast.unparse(recv), where(f, c),
                                 f"in-place `{c.func.attr}` on `{ast.unparse(recv)}` in worker-reachable code: input maps are "
                                 f"shared by all queries handled in one process", found=ast.unparse(c)[:100],
                                 required="no in-place mutation of shared maps")
                elif isinstance(recv, ast.Name) and last in ("referenceMaps", "queryMaps") and \
                        any(pp.name == last for pp in f.params):
                    ck.violation(rule, short(f) + ":" + last, where(f, c), f"in-place `{c.func.attr}` on the shared map list",
                                 found=ast.unparse(c)[:100])
        for attr, stmt in E.attribute_stores(f):
            rt = ctx.t.type_of(f, attr.value)
            if f.name in ("__init__", "__post_init__") and isinstance(attr.value, ast.Name) and attr.value.id == f.self_name:
                continue                  # a constructor filling in its own new object
            if isinstance(rt, Inst) and rt.cls in (om, pw):
                ck.violation(rule, short(f) + ":store:" + attr.attr, where(f, stmt), "store into a shared input object",
                             found=ast.unparse(stmt)[:100])
        for node in ast.walk(f.node):
            if isinstance(node, (ast.Assign, ast.AugAssign)):
                for t in (node.targets if isinstance(node, ast.Assign) else [node.target]):
                    if isinstance(t, ast.Subscript) and isinstance(t.value, ast.Attribute) and t.value.attr == "positions":
                        rt = ctx.t.type_of(f, t.value.value)
                        if isinstance(rt, Inst) and rt.cls is om:
                            ck.violation(rule, short(f) + ":positions[...]", where(f, node), "item store into an input map's positions",
                                         found=ast.unparse(node)[:100])
    ck.floor(f"{rule} mutator calls inspected in worker-reachable code", n, 5)
    ck.ok(rule, "worker-reach:mutation", worker.where, f"{n} in-place mutator calls inspected; none touches a shared input")

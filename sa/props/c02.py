"""C02 - record fields agree with the listed pairs and the input maps (structural clauses).

  C02.1  column table agreement: header names == index column + record keys (as sequences; the file is written
         with header=False so position is all that labels a column); #f types fit the value formatting; every reader
         column exists; per column the writer reads the attribute the reader stores (both sides implement
         BenchmarkAlignment); column-name / attribute roles agree (R-ROLE)
  C02.2  XmapEntryID counts 1..len(rows)
  C02.3  header derivation in AlignmentResultRow.create (first/last pair by reference order, query start/end
         exchanged on the reverse strand) and role agreement of its constructor arguments
  C02.4  second-pass fragments keep id, full length and a label-number offset equal to the labels cut from the front
  C02.5  label numbering honours shift on both strands; reverse coordinates mirrored about length - 1
Declined: numerical agreement of the written numbers with the CMAP text.
"""
from __future__ import annotations

import ast

from ..loader import AnalysisError
from .. import terms as T
from ..terms import C, V
from ..rules.common import explore, where, short, find_terms, self_attr, app_args
from ..rules.xmap import extract_writer, extract_reader, row_attrs
from ..rules import role as R


def run(ck):
    ck.clause("C02.1", "writer header / record / reader column tables agree; attribute and role correspondence per column")
    ck.clause("C02.2", "XmapEntryID index is 1..len(rows)")
    ck.clause("C02.3", "row header derived from first/last pair, query start/end exchanged on the reverse strand")
    ck.clause("C02.4", "second-pass fragments keep id, full length and the label-number offset of what was cut")
    ck.clause("C02.5", "label numbering honours shift on both strands; reverse coordinates mirrored about length-1")
    w = extract_writer(ck)
    r = extract_reader(ck)
    column_table(ck, w, r, "C02.1")
    entry_id(ck, w, "C02.2")
    header_derivation(ck, "C02.3")
    fragments(ck, "C02.4")
    numbering(ck, "C02.5")
    identity_arguments(ck, "C02.14")
    pickled_state_complete(ck, "C02.15")
    ck.clause("C02.6", "map coordinates and lengths reach the records at full precision; queries trimmed, references not")
    from .c17 import no_narrowing, trim_formulae
    no_narrowing(ck, "C02.6")
    ck.clause("C02.7", "query coordinates and QryLen follow the trim formulae (position - first label, length = last - first + 1; as C17.5)")
    trim_formulae(ck, "C02.7")
    ck.clause("C02.8", "RefLen / QryLen are the lengths of the molecules named: a map's length is read from its own end-marker row, "
                       "inside its own CMapId group (as C17.2)")
    from ..report import RuleView
    from . import c17, c08
    c17.run(RuleView(ck, {"C17.2": "C02.8"}))
    ck.clause("C02.10", "every record's header comes from AlignmentResultRow.create - first/last listed pair, strand-aware - never from "
                        "a raw constructor call with start/end copied from somewhere else (as C04.2)")
    from . import c04 as _c04
    _c04.ownership(RuleView(ck, {"C04.2": "C02.10"}, only_constructs=("raw-AlignmentResultRow",)))
    ck.clause("C02.9", "RefContigID names the map of every listed label: records are joined only on the same reference and strand "
                       "(as C08.4)")
    c08._eligibility(ck, {}, None, rule="C02.9", wiring=False)
    from .c17 import frame_integrity
    frame_integrity(ck, "C02.13")      # a label row dropped while reading shifts every later label number of that map
    records_frozen(ck, "C02.11")
    ck.clause("C02.12", "a joined record is built with the strand of its parts: Orientation and the exchange of query start / end follow "
                        "the strand the listed pairs were made on (as C08.6)")
    c08._joined_row(RuleView(ck, {"C08.6": "C02.12"}, only_constructs=(":reverseStrand",)))
    n = R.run_role_rule(ck, "C02.3", modules={"src.alignment.alignment_results", "src.alignment.aligner"})
    ck.floor("C02 role bindings judged", n, 40)
    # (listed last: what this borrowed rule cannot read must not keep the property's own rules from reporting)
    ck.clause("C02.16", "a joined record is handed back only if it is collinear (as C01.20): QryStartPos / QryEndPos are taken from the first and "
                        "last pair in reference order - for parts swapped in the query neither is the offset of an outermost aligned label")
    if ck.wants("C02.16"):
        from .c01 import joined_is_collinear as _jic02
        _jic02(RuleView(ck, {"C01.20": "C02.16"}), "C01.20")


# ---------------------------------------------------------------------------------------------------------- C02.11
_HEADER_ATTRS = {"queryStartPosition", "queryEndPosition", "referenceStartPosition", "referenceEndPosition", "reverseStrand",
                 "queryId", "referenceId", "queryLength", "referenceLength"}
_CONTENT_ATTRS = {"segments", "alignedPairs"}


def records_frozen(ck, rule, skip_modules=("src.diagnostic.alignment_comparer", "src.compare_alignments"), content=None, clause=None):
    """A record's header is derived once, in AlignmentResultRow.create, from the pairs it lists. Nothing may change the listed
    content (segments / alignedPairs, the attribute or the list in place) or a header field afterwards: the row objects of the
    first and second pass are written again after a join."""
    import ast
    from ..rules.effects import MUTATORS
    from ..types import _iter_own_nodes
    ck.clause(rule, clause or "a record is not altered after its header was derived: no store into segments / alignedPairs (attribute, element "
                    "or in-place method) or into a header field outside a constructor")
    p = ck.ctx.p
    _CONTENT_ATTRS = content or globals()["_CONTENT_ATTRS"]
    _HEADER_ATTRS = set() if content else globals()["_HEADER_ATTRS"]
    n_fn = 0
    for f in p.nontest_functions():
        if f.is_lambda or not f.module.name.startswith("src.") or f.module.name in skip_modules:
            continue                      # (the comparison tool works on alignments read from files: C19.6) - the plotters and other diagnostics included: they run inside the worker, on the row that is written later
        n_fn += 1
        in_init = f.name in ("__init__", "__post_init__", "__new__")

        def base_is_own_self(attr_node):
            return in_init and isinstance(attr_node.value, ast.Name) and attr_node.value.id == "self"
        for node in _iter_own_nodes(f.node):
            targets = []
            if isinstance(node, ast.Assign):
                targets = list(node.targets)
            elif isinstance(node, (ast.AugAssign, ast.AnnAssign)) and getattr(node, "value", True) is not None:
                targets = [node.target]
            elif isinstance(node, ast.Delete):
                targets = list(node.targets)
            flat = []
            while targets:
                t = targets.pop()
                if isinstance(t, (ast.Tuple, ast.List)):
                    targets.extend(t.elts)
                elif isinstance(t, ast.Starred):
                    targets.append(t.value)
                else:
                    flat.append(t)
            for t in flat:
                if isinstance(t, ast.Attribute) and t.attr in (_CONTENT_ATTRS | _HEADER_ATTRS) and not base_is_own_self(t):
                    ck.violation(rule, short(f) + ":" + t.attr, where(f, node),
                                 f"`{ast.unparse(t)}` is re-assigned outside a constructor: the record's header and the pairs it "
                                 "lists no longer describe the same alignment", found=ast.unparse(node)[:160],
                                 required="a new record through AlignmentResultRow.create")
                b = t
                while isinstance(b, ast.Subscript):
                    b = b.value
                if b is not t and isinstance(b, ast.Attribute) and b.attr in _CONTENT_ATTRS:
                    ck.violation(rule, short(f) + ":" + b.attr + "[]", where(f, node),
                                 f"an element of `{ast.unparse(b)}` is replaced in place: a record that was already created (and is "
                                 "written again in the 'all' / 'separate' files) now lists other pairs than its header was derived from",
                                 found=ast.unparse(node)[:160], required="a new list / a new record")
            # a local that *is* the record's list (bound once to <record>.segments / .alignedPairs, no copy) and is changed in place
            if isinstance(node, ast.Call) and isinstance(node.func, ast.Attribute) and node.func.attr in MUTATORS and \
                    isinstance(node.func.value, ast.Name):
                nm = node.func.value.id
                binds = [x for x in _iter_own_nodes(f.node) if isinstance(x, ast.Assign) and len(x.targets) == 1 and
                         isinstance(x.targets[0], ast.Name) and x.targets[0].id == nm]
                # the binding in force at the call: the last store of the name in front of it (by line) must be that assignment
                before = [x for x in ast.walk(f.node) if isinstance(x, ast.Name) and x.id == nm and isinstance(x.ctx, ast.Store)
                          and x.lineno < node.lineno]
                binds = [b for b in binds if before and b.targets[0] is max(before, key=lambda x: (x.lineno, x.col_offset))]
                in_loop_between = False
                if len(binds) == 1 and isinstance(binds[0].value, ast.Attribute) and binds[0].value.attr in _CONTENT_ATTRS \
                        and not base_is_own_self(binds[0].value):
                    ck.violation(rule, short(f) + ":" + binds[0].value.attr + "." + node.func.attr, where(f, node),
                                 f"`{nm}` is the record's own list ({ast.unparse(binds[0].value)}, not a copy) and is changed in place by "
                                 f".{node.func.attr}(): the record's header was derived from the previous content",
                                 found=ast.unparse(binds[0])[:80] + "; " + ast.unparse(node)[:80], required="a new list / a new record (sorted(...))")
            if isinstance(node, ast.Call) and isinstance(node.func, ast.Attribute) and node.func.attr in MUTATORS and \
                    isinstance(node.func.value, ast.Attribute) and node.func.value.attr in _CONTENT_ATTRS and \
                    not base_is_own_self(node.func.value):
                ck.violation(rule, short(f) + ":" + node.func.value.attr + "." + node.func.attr, where(f, node),
                             f"`{ast.unparse(node.func.value)}` is changed in place by .{node.func.attr}(): the record's header was "
                             "derived from the previous content", found=ast.unparse(node)[:160], required="a new list / a new record")
    ck.ok(rule, "records-frozen", "src/", "no function outside a constructor stores into a record's content or header", f"{n_fn} functions")
    ck.floor(f"{rule} functions scanned", n_fn, 150)


# ---------------------------------------------------------------------------------------------------------- C02.1
def column_table(ck, w, r, rule):
    fn = w.fn
    where_frame = where(fn, w.frame_node)
    names = w.header_names
    ck.floor(f"{rule} header names", len(names), 10)
    ck.floor(f"{rule} record keys", len(w.record_keys), 10)
    ck.floor(f"{rule} reader columns", len(r.columns), 10)
    expected = names[1:]
    actual = [expected[0]] + w.record_keys if expected else w.record_keys
    # (a) sequence agreement; the first data column is the frame index
    if expected == actual:
        ck.ok(rule, "writeAlignments:header-vs-record", where_frame,
              f"{len(expected)} header names equal index + {len(w.record_keys)} record keys, in order")
    else:
        diffs = [f"#{i}: header {a!r} / record {b!r}" for i, (a, b) in enumerate(zip(expected, actual)) if a != b]
        if len(expected) != len(actual):
            diffs.append(f"header has {len(expected)} columns, records have {len(actual)}")
        ck.violation(rule, "writeAlignments:header-vs-record", where_frame,
                     "header line and data rows disagree (rows are written without header, so the name of a column is "
                     "only its position)", found="; ".join(diffs[:6]), required="identical sequences")
    if len(set(names)) != len(names):
        ck.violation(rule, "writeAlignments:header-unique", where(fn, w.lines_node), "duplicate column name in header",
                     found=str(names))
    # (c) type row
    if len(w.header_types) == len(names):
        bad = []
        for name, ty in zip(names[1:], w.header_types[1:]):
            v = w.record_values.get(name)
            if v is None:
                continue
            fmt = _format_spec(v)
            if ty == "float" and (fmt is None or not fmt.endswith("f}")):
                bad.append(f"{name}: declared float, written as {T.show(v)[:60]}")
            if ty == "int" and fmt is not None and fmt.endswith("f}"):
                bad.append(f"{name}: declared int, written with {fmt}")
        ck.judge(not bad, rule, "writeAlignments:type-row", where(fn, w.lines_node),
                 "#f type row fits the formatting of each record value", found="; ".join(bad) or "all consistent")
    # (d) reader columns exist
    missing = [c for c in r.columns if c not in names]
    ck.judge(not missing, rule, "readAlignments:columns-exist", where(r.fn, r.columns_node),
             "every column the reader asks for is written by the writer", found=f"missing: {missing}" if missing else
             f"{len(r.columns)} columns")
    # (e) attribute correspondence
    n_corr = 0
    for col in names[1:]:
        if col not in w.record_values or col not in r.column_attr:
            continue
        wa = row_attrs(w.record_values[col])
        ra = r.column_attr[col]
        n_corr += 1
        construct = f"column:{col}"
        if col == "Orientation" and orientation_column(ck, rule, w, where_frame):
            continue
        if col == "Confidence" and rule.startswith("C18"):
            confidence_column(ck, rule, w, where_frame)       # the round-trip clause of C18 ("confidence to two decimals"); also C04.14
        if len(wa) != 1:
            v = w.record_values[col]
            indirect = [x for x in T.subterms(v) if x[0] == "idx" or (x[0] == "mcall" and x[2] in ("get", "__getitem__"))]
            if len(wa) > 1 and indirect:
                ck.violation(rule, construct, where_frame,
                             f"the value of column {col} is not read from the record being written but looked up through another "
                             f"attribute of it ({', '.join(wa)}): records that share that attribute get each other's value",
                             found=T.show(v)[:200], required=f"row.{ra}")
                continue
            raise AnalysisError(f"{where_frame}: value of column {col} does not read exactly one row attribute: {wa}")
        if wa[0] == ra:
            ck.ok(rule, construct, where_frame, f"writer reads row.{wa[0]}, reader stores .{ra}")
        elif col == "Orientation" or wa[0] == "orientation":
            _orientation(ck, rule, w, r, col, where_frame)
        elif rule.startswith("C02") and R.conflict(R.tokens(wa[0]), R.tokens(col)) is None and \
                R.conflict(R.tokens(ra), R.tokens(col)) is not None:
            # the side that deviates is the reader (its attribute contradicts the column's name, the writer's does not): what is
            # written is right - C18.1 reports the round trip
            ck.ok(rule, construct, where_frame, f"writer reads row.{wa[0]} (fits the column name); the reader's landing in .{ra} is C18's matter")
        else:
            ck.violation(rule, construct, where_frame,
                         f"column {col} is written from row.{wa[0]} but read back into .{ra}",
                         found=f"writer attribute {wa[0]}", required=f"attribute {ra} (the reader's binding of {col})")
    ck.floor(f"{rule} attribute correspondences", n_corr, 10)
    # (f) column-name roles
    for col, v in w.record_values.items():
        wa = row_attrs(v)
        if len(wa) == 1:
            fam = R.conflict(R.tokens(wa[0]), R.tokens(col))
            ck.judge(fam is None, rule, f"column-role:{col}", where_frame,
                     f"column name {col} and attribute {wa[0]} carry compatible roles",
                     found=f"{col} <- row.{wa[0]} conflict in {fam}" if fam else None)
    # reader side: parse(...) parameters vs the columns bound to them
    for pname, cs in r.param_columns.items():
        for c in cs:
            fam = R.conflict(R.tokens(c), R.tokens(pname))
            ck.judge(fam is None, rule, f"reader-binding:{pname}", r.row_parser.where,
                     f"column {c} is bound to parameter {pname} of the same role",
                     found=f"{c} -> {pname} conflict in {fam}" if fam else None)


def confidence_column(ck, rule, w, where_frame=None) -> bool:
    """The Confidence column carries the score with two decimals (the XMAP convention the reader's round-trip clause relies on;
    scores have hundredths as soon as --distancePenaltyMultiplier has): a coarser format loses what the record's score was."""
    import re as _re
    v = w.record_values_inl.get("Confidence", w.record_values.get("Confidence"))
    if v is None:
        return False
    fmt = _format_spec(v)
    wf = where_frame or where(w.fn, w.frame_node)
    if fmt is None:
        return False
    m = _re.search(r"\.(\d+)f\}", fmt)
    if m and int(m.group(1)) < 2:
        ck.violation(rule, "column:Confidence:precision", wf,
                     f"Confidence is written with {m.group(1)} decimal(s): the score of a record has hundredths (coordinates with one "
                     "decimal times a fractional --distancePenaltyMultiplier), so the file no longer says what the score was",
                     found=fmt, required="{:.2f}")
        return True
    ck.ok(rule, "column:Confidence:precision", wf, "Confidence is written with two decimals", fmt)
    return False


def orientation_column(ck, rule, w, where_frame=None) -> bool:
    """The Orientation column is the record's strand flag. Derived from the coordinates instead (QryStartPos > QryEndPos) it is wrong
    for a reverse-strand record with one aligned pair, whose query start and end coincide. Returns True when it reported."""
    v = w.record_values.get("Orientation")
    if v is None:
        return False
    wa = row_attrs(v)
    coords = {"queryStartPosition", "queryEndPosition", "referenceStartPosition", "referenceEndPosition"}
    if wa and set(wa) <= coords:
        ck.violation(rule, "column:Orientation", where_frame or where(w.fn, w.frame_node),
                     f"Orientation is worked out from the coordinates ({', '.join(wa)}) instead of the record's strand: a reverse-strand "
                     "record with a single aligned pair has QryStartPos == QryEndPos and is written '+', while its label numbering and "
                     "its mirror image say '-'", found=T.show(w.record_values_inl.get("Orientation", v))[:200],
                     required="row.orientation ('-' if reverseStrand else '+')")
        return True
    return False


def _format_spec(v):
    if v[0] == "mcall" and v[2] == "format" and v[1][0] == "c" and isinstance(v[1][1], str):
        return v[1][1]
    if v[0] == "fstr":
        for part in v[1]:
            if part[0] == "fmt" and part[3]:
                return "{:" + part[3] + "}"
    return None


def _orientation(ck, rule, w, r, col, where_frame):
    """writer: '-' if reverseStrand else '+'   reader: reverseStrand = row[col] == '-'"""
    v = w.record_values_inl.get(col)
    sel = None
    for x in T.subterms(v):
        if x[0] == "select" and x[2][0] == "c" and x[3][0] == "c":
            sel = x
    rt = r.param_terms.get("reverseStrand")
    if sel is None or rt is None or rt[0] != "eq":
        raise AnalysisError(f"{where_frame}: orientation encoding not recognised (writer {T.show(v)[:80]}, reader "
                            f"{T.show(rt) if rt else None})")
    cond_attr = [x[2] for x in T.subterms(sel[1]) if x[0] == "attr"]
    lit_reader = [x for x in (rt[1], rt[2]) if x[0] == "c"]
    ok = cond_attr == ["reverseStrand"] and lit_reader and sel[2] == lit_reader[0] and sel[3] != sel[2]
    ck.judge(ok, rule, f"column:{col}", where_frame,
             "orientation literal written for the reverse strand is the literal the reader tests for",
             found=f"writer {T.show(sel)}, reader {T.show(rt)}",
             required="writer's reverse-strand literal == reader's comparison literal")
    strands = {sel[2], sel[3]}
    ck.judge(strands == {C("+"), C("-")}, rule, f"column:{col}:literals", where_frame,
             "Orientation is '+' or '-'", found=str(sorted(T.show(s) for s in strands)))


# ---------------------------------------------------------------------------------------------------------- C02.2
def entry_id(ck, w, rule):
    fn = w.fn
    idx = w.index_term
    wf = where(fn, w.frame_node)
    if idx is None:
        ck.violation(rule, "writeAlignments:index", wf, "data frame has no explicit index: XmapEntryID would count from 0",
                     found="default RangeIndex(0..n-1)", required="1..len(rows)")
        return
    for chain, ev in w.reordered:
        ck.violation(rule, "writeAlignments:index:moved", where(fn, ev.node),
                     f"the frame is passed through .{'/.'.join(reversed(chain))}() after its index 1..n was set: the index travels with the "
                     "rows, so XmapEntryID no longer counts 1, 2, 3, ... down the file (or rows are missing)",
                     found=T.show(ev.term[1])[-160:], required="DataFrame(..., index=RangeIndex(1, n + 1)).to_csv(...)")
    n = T.mk_call("len", [w.rows_term])
    want_stop = T.p_add(n, C(1))
    start = stop = None
    if idx[0] == "call" and idx[1].split(".")[-1] in ("RangeIndex", "range", "arange"):
        kw = dict(idx[3])
        args = list(idx[2])
        if "start" in kw or "stop" in kw:
            start, stop = kw.get("start", C(0)), kw.get("stop", args[0] if args else None)
        elif len(args) == 2:
            start, stop = args
        elif len(args) == 1:
            start, stop = C(0), args[0]
    if start is None or stop is None:
        raise AnalysisError(f"{wf}: index expression not recognised: {T.show(idx)}")
    # an optional parameter with a constant default that no call site in the program passes stands for its default (a `firstEntryId=1`
    # nobody uses is the number 1; as soon as one caller passes something the parameter stays a parameter and the rule compares with it)
    defaults = {}
    cparams = [pp for pp in fn.call_params()]
    sites = [s_ for s_ in ck.ctx.cg.sites_calling(fn) if not s_.caller.module.is_test]
    for i, pp in enumerate(cparams):
        if pp.default is None or not isinstance(pp.default, ast.Constant) or isinstance(pp.default.value, bool) \
                or not isinstance(pp.default.value, (int, float)):
            continue
        passed = False
        for s_ in sites:
            if any(isinstance(a, ast.Starred) for a in s_.node.args) or any(k.arg is None for k in s_.node.keywords) \
                    or len(s_.node.args) > i or any(k.arg == pp.name for k in s_.node.keywords):
                passed = True
        if sites and not passed:
            defaults[V(pp.name)] = C(pp.default.value)
    if defaults:
        start, stop = T.substitute(start, defaults), T.substitute(stop, defaults)
        if stop[0] == "poly":
            stop = T.p_add(stop, C(0))
    ck.judge(start == C(1) and stop == want_stop, rule, "writeAlignments:index", wf,
             "XmapEntryID = 1 .. len(rows)", found=f"start={T.show(start)}, stop={T.show(stop)}",
             required=f"start=1, stop={T.show(want_stop)}")


# ---------------------------------------------------------------------------------------------------------- C02.3
def header_derivation(ck, rule, exact=False):
    """exact=False: a header coordinate rounded to at least one decimal is the coordinate as far as the XMAP file (written with
    one decimal) is concerned; exact=True (C07.G9): the stored value must be the label coordinate itself"""
    ctx = ck.ctx
    fn = ctx.p.find_method("AlignmentResultRow", "create")
    paths = [p for p in explore(ck, fn) if p.outcome == "return"]
    ck.floor(f"{rule} return paths of AlignmentResultRow.create", len(paths), 1)
    rs = V("reverseStrand")
    n_empty_paths = n_derived = 0
    for pa in paths:
        v = pa.value
        if v[0] != "new" or not v[1].endswith("AlignmentResultRow"):
            raise AnalysisError(f"{where(fn, pa.node)}: create does not return an AlignmentResultRow construction")
        args = dict(v[2])
        need = ["referenceStartPosition", "referenceEndPosition", "queryStartPosition", "queryEndPosition"]
        for k in need:
            if k not in args:
                raise AnalysisError(f"{where(fn, pa.node)}: constructor argument {k} not bound")
        # locate P: X such that referenceStart mentions X[0]
        cands = [x[1] for x in T.subterms(args["referenceStartPosition"]) if x[0] == "idx" and x[2] in (C(0), C(-1))]
        if not cands:
            # the path for a record without pairs (explicit if/else instead of a conditional expression): nothing to derive
            empties = [k for k, tv in pa.facts.items() if tv is False and k[0] in ("call", "comp")
                       and any(x[0] == "call" and x[1] == "sorted" for x in T.subterms(k))]
            if empties:
                n_empty_paths += 1
                continue
            raise AnalysisError(f"{where(fn, pa.node)}: referenceStartPosition is not taken from an indexed pair list")
        n_derived += 1
        P = cands[0]
        base_facts = dict(pa.facts)
        T.add_fact(base_facts, P, True)
        first, last = T.mk_idx(P, C(0)), T.mk_idx(P, C(-1))

        def pos(pair, side):
            return T.mk_attr(T.mk_attr(pair, side), "position")
        for rev in (False, True):
            facts = dict(base_facts)
            if rs in facts and facts[rs] != rev:
                continue
            T.add_fact(facts, rs, rev)
            want = {
                "referenceStartPosition": pos(first, "reference"),
                "referenceEndPosition": pos(last, "reference"),
                "queryStartPosition": pos(last if rev else first, "query"),
                "queryEndPosition": pos(first if rev else last, "query"),
            }
            for k, wv in want.items():
                got = T.specialize(args[k], facts)
                if not exact and got[0] == "call" and got[1] == "round" and len(got[2]) == 2 and got[2][1][0] == "c" \
                        and isinstance(got[2][1][1], int) and got[2][1][1] >= 1:
                    got = got[2][0]
                strand = "reverse" if rev else "forward"
                construct = f"AlignmentResultRow.create:{k}:{strand}"
                if got == wv:
                    ck.ok(rule, construct, where(fn, pa.node), f"{k} ({strand}) = {T.show(wv)[-40:]}")
                else:
                    recognised = all(x[0] in ("idx", "attr", "call", "comp", "bv", "v", "c", "select", "cls", "isinstance",
                                              "app", "lt", "le", "eq", "ne", "not", "and", "or")
                                     for x in T.subterms(got))
                    if not recognised:
                        raise AnalysisError(f"{where(fn, pa.node)}: {k} not in the recognised vocabulary: {T.show(got)[:200]}")
                    ck.violation(rule, construct, where(fn, pa.node),
                                 f"{k} on the {strand} strand is not taken from the required end of the pair list",
                                 found=T.show(got)[-160:], required=T.show(wv)[-160:])
        # P is an ascending sort of the aligned pairs of the segments
        sorted_ok = P[0] == "call" and P[1] == "sorted" and dict(P[3]).get("reverse", C(False)) in (C(False),) \
            and "key" not in dict(P[3])
        if sorted_ok:
            ck.ok(rule, "AlignmentResultRow.create:pair-order", where(fn, pa.node),
                  "first/last are taken from the pairs sorted ascending (by reference position)")
        elif P[0] == "call" and P[1] == "sorted":
            kw = dict(P[3])
            if kw.get("reverse", C(False)) == C(True):
                ck.violation(rule, "AlignmentResultRow.create:pair-order", where(fn, pa.node),
                             "pairs sorted descending: start/end exchanged", found=T.show(P)[:200])
            else:
                raise AnalysisError(f"{where(fn, pa.node)}: custom sort key for the pair list not recognised")
        else:
            raise AnalysisError(f"{where(fn, pa.node)}: pair list is not produced by sorted(...): {T.show(P)[:120]}")
        # identity arguments (not for C07.G9: a converted id or length aborts nothing)
        for k in ("queryId", "referenceId", "queryLength", "referenceLength", "reverseStrand"):
            if k in args and not rule.startswith("C07"):
                if k in ("queryId", "referenceId") and args[k] == T.mk_call("int", [V(k)]):
                    continue              # int() of a molecule id names the same molecule
                ck.judge(args[k] == V(k), rule, f"AlignmentResultRow.create:{k}", where(fn, pa.node),
                         f"{k} is passed through unchanged", found=T.show(args[k])[:100], required=k)
    if n_derived == 0:
        raise AnalysisError(f"{fn.where}: no path of AlignmentResultRow.create derives the header from the pair list")


def identity_arguments(ck, rule):
    """Where the aligner builds a record, the identity fields are those of the two maps it aligned: ids and lengths are read from
    the map objects themselves (<map>.moleculeId, <map>.length). A length recomputed from the labels agrees for a trimmed whole
    query only - a second-pass fragment keeps the whole molecule's length and a slice of its labels."""
    p = ck.ctx.p
    ck.clause(rule, "Aligner.align passes <query>.moleculeId / <reference>.moleculeId / <query>.length / <reference>.length of the maps "
                    "it aligned to AlignmentResultRow.create")
    fn = p.find_method("Aligner", "align")
    params = [pp.name for pp in fn.call_params()]
    n = 0
    for pa in explore(ck, fn, unroll=(0, 1)):
        if pa.outcome != "return":
            continue
        for x in T.subterms(pa.value):
            if x[0] == "app" and x[1].endswith("AlignmentResultRow.create"):
                a = dict(x[3])
                n += 1
                for k, (obj, attr) in {"queryId": ("query", "moleculeId"), "referenceId": ("reference", "moleculeId"),
                                       "queryLength": ("query", "length"), "referenceLength": ("reference", "length")}.items():
                    v = a.get(k)
                    if v is None or obj not in params:
                        raise AnalysisError(f"{where(fn, pa.node)}: argument {k} of AlignmentResultRow.create not bound in Aligner.align")
                    want = T.mk_attr(V(obj), attr)
                    if v == want:
                        ck.ok(rule, short(fn) + ":" + k, where(fn, pa.node), f"{k} <- {obj}.{attr}", T.show(v)[:80])
                    elif any(y == T.mk_attr(V(obj), "positions") for y in T.subterms(v)) or \
                            any(y[0] == "attr" and y[1] == V("reference" if obj == "query" else "query") for y in T.subterms(v)):
                        ck.violation(rule, short(fn) + ":" + k, where(fn, pa.node),
                                     f"{k} of the record is not the map's own {attr}: it is recomputed from the labels (or taken from the "
                                     "other map) - a second-pass fragment carries the whole molecule's length and only a slice of its "
                                     "labels, so its records report another QryLen than the molecule has",
                                     found=T.show(v)[:160], required=f"{obj}.{attr}")
                    else:
                        raise AnalysisError(f"{where(fn, pa.node)}: argument {k} of AlignmentResultRow.create is not read: {T.show(v)[:120]}")
        break
    ck.floor(f"{rule} AlignmentResultRow.create calls in Aligner.align", n, 1)


def pickled_state_complete(ck, rule):
    """Maps and rows cross the process boundary (p_imap pickles every task and every result). A class that takes pickling into its
    own hands (__reduce__ / __reduce_ex__ / __getstate__ / __getnewargs__) must carry every field of its constructor: a field left
    out comes back with its default in the worker - `shift` of a second-pass fragment, for one."""
    import ast
    p = ck.ctx.p
    ck.clause(rule, "a class of src/ with custom pickling carries every constructor field in the pickled state (maps and rows are "
                    "pickled on their way to and from the workers)")
    n = 0
    for c in p.classes.values():
        if c.module.is_test or not c.module.name.startswith("src."):
            continue
        hooks = [c.methods[m] for m in ("__reduce__", "__reduce_ex__", "__getstate__", "__getnewargs__", "__getnewargs_ex__") if m in c.methods]
        if not hooks:
            continue
        init = p.lookup_method(c, "__init__", None)
        fields = [pp.name for pp in init.call_params()] if init is not None else []
        for h in hooks:
            n += 1
            if not h.self_name:
                raise AnalysisError(f"{h.where}: pickling hook without self")
            whole = any(isinstance(x, ast.Attribute) and isinstance(x.value, ast.Name) and x.value.id == h.self_name and x.attr == "__dict__"
                        for x in ast.walk(h.node)) or any(isinstance(x, ast.Call) and ast.unparse(x.func) in ("vars", "dataclasses.asdict", "asdict",
                                                                                                             "dataclasses.astuple", "astuple")
                                                          for x in ast.walk(h.node))
            read = {x.attr for x in ast.walk(h.node) if isinstance(x, ast.Attribute) and isinstance(x.value, ast.Name) and x.value.id == h.self_name}
            missing = [f for f in fields if f not in read and mangle_free(f) not in read]
            if whole or not missing:
                ck.ok(rule, short(h) + ":state", h.where, "the pickled state carries every constructor field", ", ".join(fields))
            else:
                ck.violation(rule, short(h) + ":state", h.where,
                             f"{c.name} is pickled without its field(s) {', '.join(missing)}: the object that arrives in the worker "
                             "process has the default there - a second-pass fragment loses its label-number offset, so its records list "
                             "fragment-relative label numbers next to whole-query coordinates",
                             found=f"{h.name} reads {sorted(read)}", required=f"all of {fields}")
    if n == 0:
        ck.ok(rule, "custom-pickling", "src/", "no class of src/ defines a pickling hook (the default carries every field)", "")


def mangle_free(name: str) -> str:
    return name.lstrip("_")


# ---------------------------------------------------------------------------------------------------------- C02.4
def fragments_reach_second_pass(ck, rule):
    """the fragments are aligned as they were cut: the query list handed to the second pass consists of the very objects
    getUnalignedFragments returned (flattened) - not of copies re-based by trim() or rebuilt in any other way, which would lose
    the label-number offset and the whole-molecule coordinates the joined record relies on"""
    from ..rules.common import path_terms
    ctx = ck.ctx
    fn = ctx.p.find_method("_MultiPassWorkflowCoordinator", "getSecondPassAlignmentRows")
    n = 0
    for pa in explore(ck, fn, unroll=(0, 1)):
        for t, facts, node, kind in path_terms(pa):
            for x in T.subterms(t):
                if x[0] == "app" and x[1].endswith("_WorkflowCoordinator.execute"):
                    n += 1
                    q = dict(x[3]).get("queryMaps")
                    w = where(fn, node)
                    if q is None:
                        raise AnalysisError(f"{w}: query list of the second pass not bound")
                    # comp over (rows -> getUnalignedFragments(...)) whose element is the inner bound variable itself
                    def cuts(it):
                        return (it[0] == "app" and it[1].endswith("getUnalignedFragments")) or \
                            (it[0] == "mcall" and it[2] == "getUnalignedFragments")
                    ok = q[0] == "comp" and q[2][0] == "bv" and any(cuts(it) for it, _ in q[3]) and not any(ifs for _, ifs in q[3])
                    rebuilt = q[0] == "comp" and q[2][0] != "bv"
                    if ok:
                        ck.ok(rule, short(fn) + ":fragments-as-cut", w, "the second pass aligns the fragments exactly as "
                              "getUnalignedFragments returned them", T.show(q)[:200])
                    elif rebuilt:
                        ck.violation(rule, short(fn) + ":fragments-as-cut", w, "the fragments are transformed before the second pass "
                                     "(re-based / rebuilt): label numbers and coordinates of second-pass records no longer refer to "
                                     "the whole molecule", found=T.show(q[2])[:200], required="the fragment objects themselves")
                    else:
                        raise AnalysisError(f"{w}: query list of the second pass not recognised: {T.show(q)[:200]}")
        if n:
            break
    ck.floor(f"{rule} second-pass execute calls", n, 1)
    # ... and the pass itself (one coordinator serves both passes) hands each molecule to its worker as it received it
    ex = ctx.p.find_method("_WorkflowCoordinator", "execute")
    qparam = next((pp.name for pp in ex.call_params() if "query" in pp.name.lower()), None)
    if qparam is None:
        raise AnalysisError(f"{ex.where}: query list parameter of execute not found")
    m = 0
    for pa in explore(ck, ex, unroll=(0, 1)):
        if pa.outcome != "return" or pa.value is None:
            continue
        for x in T.subterms(pa.value):
            if x[0] == "call" and x[1].split(".")[0] == "p_tqdm" and len(x[2]) >= 2:
                m += 1
                tasks = x[2][1]
                w = where(ex, pa.node)
                rebuilt = [y for y in T.subterms(tasks) if (y[0] == "app" and y[1].endswith("OpticalMap.trim")) or
                           (y[0] == "new" and y[1].endswith(":OpticalMap"))]
                if rebuilt:
                    ck.violation(rule, short(ex) + ":molecules-as-given", w,
                                 "the coordinator re-bases / rebuilds the molecules it is given before it aligns them: harmless for the "
                                 "first pass (Program trims what it reads: trim is idempotent there), but the second pass runs through "
                                 "the same method and its fragments lose their label-number offset and the whole-molecule frame - "
                                 "second-pass and joined records report pairs tens of kb off the seed diagonal",
                                 found=T.show(rebuilt[0])[:120], required=f"the elements of `{qparam}` themselves")
                elif T.contains(tasks, V(qparam)):
                    ck.ok(rule, short(ex) + ":molecules-as-given", w, "each molecule reaches its worker as it was handed in", T.show(tasks)[:160])
                else:
                    raise AnalysisError(f"{w}: the task list of the parallel map is not recognised: {T.show(tasks)[:160]}")
    ck.floor(f"{rule} parallel maps in the coordinator", m, 1)


def fragments(ck, rule):
    fragments_reach_second_pass(ck, rule)
    ctx = ck.ctx
    fn = ctx.p.find_method("AlignmentResultRow", "getUnalignedFragments")
    paths = [p for p in explore(ck, fn, unroll=(0, 1)) if p.outcome == "return"]
    seen = {}
    for pa in paths:
        for x in T.subterms(pa.value):
            if x[0] == "new" and x[1].endswith(":OpticalMap"):
                seen.setdefault(x, pa)
    ck.floor(f"{rule} distinct OpticalMap constructions in getUnalignedFragments", len(seen), 3)
    k = 0
    for x, pa in seen.items():
        k += 1
        a = dict(x[2])
        construct = f"getUnalignedFragments:fragment#{k}"
        w = where(fn, pa.node)
        ck.judge(a.get("moleculeId") == self_attr("queryId"), rule, construct + ":id", w,
                 "fragment keeps the query's molecule id", found=T.show(a.get("moleculeId", C(None))),
                 required="self.queryId")
        ck.judge(a.get("length") == self_attr("queryLength"), rule, construct + ":length", w,
                 "fragment keeps the full query length", found=T.show(a.get("length", C(None))),
                 required="self.queryLength")
        pos = a.get("positions")
        shift = a.get("shift", C(0))
        if pos is None or pos[0] != "slice":
            raise AnalysisError(f"{w}: fragment positions are not a slice of the query's positions: "
                                f"{T.show(pos)[:120] if pos else None}")
        base, lo, hi, step = pos[1], pos[2], pos[3], pos[4]
        if step != T.NONE:
            raise AnalysisError(f"{w}: stepped slice for fragment positions not recognised")
        if lo == T.NONE:
            ck.judge(shift == C(0), rule, construct + ":shift", w,
                     "head fragment (positions[:b]) has label-number offset 0", found=T.show(shift)[:160], required="0")
        else:
            want1 = T.p_sub(T.mk_call("len", [base]), T.mk_call("len", [pos]))
            ok = shift == want1 or shift == lo
            if hi != T.NONE:
                raise AnalysisError(f"{w}: two-sided slice for fragment positions not recognised")
            ck.judge(ok, rule, construct + ":shift", w,
                     "tail fragment (positions[a:]) has offset = number of labels cut from the front",
                     found=T.show(shift)[:200], required=f"{T.show(want1)[:200]}  (or the slice's lower bound)")


# ---------------------------------------------------------------------------------------------------------- C02.5
def numbering(ck, rule):
    ctx = ck.ctx
    fn = ctx.p.find_method("OpticalMap", "getPositionsWithSiteIds")
    params = fn.call_params()
    if not params:
        raise AnalysisError(f"{fn.where}: strand parameter not found")
    rev = V(params[0].name)
    positions = self_attr("positions")
    shift = self_attr("shift")
    length = self_attr("length")
    n_judged = 0
    for strand in (False, True):
        facts = {}
        T.add_fact(facts, rev, strand)
        paths = explore(ck, fn, facts=facts, unroll=(2,))
        ys = None
        for pa in paths:
            yields = [e for e in pa.events if e.kind == "yield"]
            if len(yields) == 2:
                ys = (yields, pa)
        if ys is None:
            raise AnalysisError(f"{fn.where}: no two-iteration path with one emission per label on the "
                                f"{'reverse' if strand else 'forward'} strand")
        yields, pa = ys
        recs = []
        for e in yields:
            t = e.term
            if t[0] != "new" or not t[1].endswith("PositionWithSiteId"):
                raise AnalysisError(f"{where(fn, e.node)}: emitted value is not a PositionWithSiteId")
            a = dict(t[2])
            recs.append((a.get("siteId"), a.get("position"), e))
        name = "reverse" if strand else "forward"
        (s0, p0, e0), (s1, p1, e1) = recs
        it = [e for e in pa.events if e.kind == "foriter"]
        iter_term = it[0].term if it else None
        # enumerate(xs[, start]) / zip(xs, ...) visit xs in order: what counts is the underlying sequence
        while iter_term is not None and iter_term[0] == "call" and iter_term[1] in ("enumerate", "iter", "list", "tuple") \
                and iter_term[2]:
            iter_term = iter_term[2][0]
        if iter_term is not None and iter_term[0] == "call" and iter_term[1] == "zip" and iter_term[2]:
            iter_term = iter_term[2][-1] if iter_term[2][0][0] == "call" and iter_term[2][0][1] in ("range", "itertools.count") \
                else iter_term[2][0]
        if strand:
            want_s0 = T.p_add(T.mk_call("len", [positions]), shift)
            want_step = C(-1)
            rev_iter = ("slice", positions, T.NONE, T.NONE, C(-1))
            want_iter = {rev_iter, ("call", "reversed", (positions,), ())}
            want_p = lambda j: T.p_sub(T.p_sub(length, C(1)), ("elem", iter_term, j))
        else:
            want_s0 = T.p_add(C(1), shift)
            want_step = C(1)
            want_iter = {positions}
            want_p = lambda j: ("elem", iter_term, j)
        w0 = where(fn, e0.node)
        for num in (s0, s1):
            # a label number drawn from an iterator the analysis cannot evaluate is not a deviation that can be reported
            opaque = [x for x in T.subterms(num) if x[0] in ("elem", "call", "mcall", "app") and not (x[0] == "call" and x[1] == "len")]
            if opaque:
                raise AnalysisError(f"{w0}: label number on the {name} strand is not in the vocabulary: {T.show(num)[:120]}")
        ck.judge(s0 == want_s0, rule, f"getPositionsWithSiteIds:{name}:first-number", w0,
                 f"first label number on the {name} strand", found=T.show(s0), required=T.show(want_s0))
        ck.judge(T.p_sub(s1, s0) == want_step, rule, f"getPositionsWithSiteIds:{name}:step", w0,
                 f"label numbers step by {want_step[1]:+d} on the {name} strand", found=T.show(T.p_sub(s1, s0)),
                 required=T.show(want_step))
        ck.judge(iter_term in want_iter, rule, f"getPositionsWithSiteIds:{name}:order", w0,
                 f"labels visited in {'descending' if strand else 'ascending'} coordinate order",
                 found=T.show(iter_term), required=" | ".join(T.show(x) for x in want_iter))
        ck.judge(p0 == want_p(0) and p1 == want_p(1), rule, f"getPositionsWithSiteIds:{name}:coordinate", w0,
                 "coordinate emitted for each label" + (" is mirrored about length - 1" if strand else ""),
                 found=T.show(p0), required=T.show(want_p(0)))
        n_judged += 4
    ck.floor(f"{rule} numbering obligations", n_judged, 8)

"""C04 - Confidence is exactly the configured score of what is reported (structural clauses).

  C04.1  command-line values are the ones used: argparse dest <-> Args fields; in the factory every scoring / geometry
         parameter is bound to the best-matching self.args.<field> (never a literal, never exchanged); the primary
         generator feeds getInitialAlignment, the secondary one feeds refine; coordinators' direct args reads match
         the parameters they are bound to
  C04.2  score and content cannot drift apart: who may construct / write segments and scored positions; no in-place
         mutation of a position list once it belongs to a segment
  C04.3  row confidence is the sum over exactly the stored segments
  C04.4  pair score = perfectMatchScore - distancePenaltyMultiplier * |queryShift|; unpaired = unmatchedPenalty
Declined: the numerical identity recomputed from raw maps; |offset| <= maxPairDistance for every input.
"""
from __future__ import annotations

import ast
import itertools
from typing import Dict, List, Optional, Set, Tuple

from ..loader import AnalysisError, FunctionInfo
from .. import terms as T
from ..terms import C, V, Term
from ..rules.common import explore, where, short, find_terms, self_attr, path_terms
from ..rules import role as R

MUTATORS = {"append", "extend", "pop", "insert", "remove", "sort", "reverse", "clear", "__setitem__", "__delitem__"}
SEGMENT_FIELDS = {"positions", "segmentScore", "alignedPositions"}


def run(ck):
    ck.clause("C04.1", "CLI values are wired to the matching component parameters; generators used per pass")
    ck.clause("C04.2", "who may construct/write segments and scored positions; no mutation after construction")
    ck.clause("C04.3", "row confidence = sum of the scores of exactly the stored segments")
    ck.clause("C04.4", "pair score / unmatched penalty formula")
    ck.clause("C04.5", "per seed peak: pair along that peak's diagonal -> score with the configured scorer -> cut segments")
    wiring(ck)
    ownership(ck)
    confidence(ck)
    formula(ck)
    pipeline(ck)
    n = R.run_role_rule(ck, "C04.1", modules={"src.workflow_coordinator_factory", "src.workflow_coordinator",
                                               "src.alignment.alignment_position_scorer", "src.alignment.aligner",
                                               "src.alignment.segments_factory"})
    ck.floor("C04 role bindings judged", n, 40)
    # what is scored is what is reported: every label of the window is scored exactly once (as a pair or as unpaired), and
    # what conflict resolution trims from one segment is not scored again in its neighbour
    from ..report import RuleView
    from . import c12
    from .c01 import pairwise_pass
    ck.clause("C04.6", "every label in the window is scored once: unpaired = complement (by label number) of the kept pairs (as C12.3)")
    c12.run(RuleView(ck, {"C12.3": "C04.6"}))
    ck.clause("C04.7", "overlap labels are scored in one segment only: conflicts are resolved between every consecutive chain "
                       "pair and the trimmed results written back in place (as C01.3 / C15.2)")
    pairwise_pass(ck, "C04.7")
    ck.clause("C04.8", "a label is paired (and scored) at most once: de-duplication by query label and by reference label, each "
                       "over pairs sorted by that label (as C01.4 / C12.5)")
    from .c01 import dedupe
    dedupe(ck, "C04.8")
    ck.clause("C04.9", "a joined record is made only of segments that were checked against each other: a segment carried over "
                       "from one part can share labels with the other part, and they would be scored twice (as C08.6)")
    from ..report import RuleView
    from . import c08
    c08._joined_row(RuleView(ck, {"C08.6": "C04.9"}, only_constructs=(":segments", ":only-resolved")))
    ck.clause("C04.11", "the conflicting sub-run handed to the trim reaches to the end of the overlap whatever unpaired labels lie in it "
                        "(slice window, as C15.4): a sub-run cut short leaves labels in both segments, scored twice")
    from .c15 import slice_window
    slice_window(RuleView(ck, {"C15.4": "C04.11"}))
    ck.clause("C04.10", "no label is scored in two segments of a record: each overlapping sub-run is cut at the index from its own "
                        "index table (as C15.5)")
    from . import c15
    cuts, impls, LS, RS = c15.collect_cuts(RuleView(ck, {}))
    c15.per_side_cuts(ck, "C04.10", cuts, impls, LS, RS)
    ck.clause("C04.14", "the Confidence column of the XMAP carries the score with two decimals (as C02.1 / C18.7)")
    from .c02 import confidence_column, extract_writer
    confidence_column(ck, "C04.14", extract_writer(ck))
    ck.clause("C04.13", "label numbers of second-pass fragments refer to the labels of the whole query on both strands (as C02.5): a "
                        "fragment numbered from its own start is reported against labels it was not scored on, and low-numbered labels "
                        "are counted twice in a joined record")
    from .c02 import numbering as _numbering
    _numbering(ck, "C04.13")
    ck.clause("C04.12", "the label tables the cut is counted in hold every label of their map inside the segment - pairs and unpaired "
                        "labels of that side (as C15.8): otherwise a label unpaired in one segment and paired in the other is kept by "
                        "both and scored twice")
    c15.label_characteristics(RuleView(ck, {"C15.8": "C04.12"}), "C15.8")
    scorer_total(ck, "C04.18")
    ck.clause("C04.19", "only neighbours in a chain can overlap (as C14.2): a join that skips the overlap guard (a short cut for a zero "
                        "multiplier) chains segments that cover the same labels, and the labels are scored in several segments")
    from . import c14 as _c14_04
    _c14_04.join_score(RuleView(ck, {"C14.2": "C04.19"}))
    ck.clause("C04.20", "the maps hold every label of the files (as C17.9): a label dropped while reading is never scored and shifts the "
                        "label numbers of everything behind it")
    from .c17 import frame_integrity as _fi04
    _fi04(ck, "C04.20")
    if ck.wants("C04.22"):
        segments_carry_their_own_peak(ck, "C04.22")
    ck.clause("C04.21", "a second-pass record is scored and reported in one frame: the fragments reach the aligner as they were cut (as "
                        "C02.4) - a fragment re-based on its way reports label numbers and offsets of the fragment while Confidence was "
                        "computed for them: recomputed against the whole molecule the pairs lie far off the seed diagonal")
    if ck.wants("C04.21"):
        from .c02 import fragments_reach_second_pass as _frsp04
        _frsp04(ck, "C04.21")
    ck.clause("C04.17", "a record carries the query's length as it is (as C02.3's identity arguments): second-pass fragments are built with "
                        "that length, and reverse-strand coordinates are mirrored about it - a truncated length scores the fragment's "
                        "pairs in a frame shifted by the lost fraction")
    from .c02 import header_derivation as _hd04
    _hd04(RuleView(ck, {"C02.3": "C04.17"}, only_constructs=("AlignmentResultRow.create:queryLength", "AlignmentResultRow.create:referenceLength")), "C02.3")
    ck.clause("C04.16", "the segments whose scores a joined record adds up were placed on one reference and one strand: records are joined "
                        "only with equal reference and orientation (as C08.4) - pairs carried over from another reference are far off "
                        "any diagonal of the record's reference")
    from . import c08 as _c08_04
    _c08_04._eligibility(ck, {}, None, rule="C04.16", wiring=False)
    ck.clause("C04.15", "what conflict resolution takes out of a segment are exactly the positions it was told to take out (as C15.1 "
                        ":predicate): a label of the kept part that disappears with them takes its penalty out of the Confidence")
    c15.run(RuleView(ck, {"C15.1": "C04.15"}, only_constructs=(":predicate",)))


# ------------------------------------------------------------------------------------------------------------ C04.1
def _overlap(field: str, param: str) -> int:
    return len(set(R.tokens(field)) & set(R.tokens(param)))


def wiring(ck):
    ctx = ck.ctx
    p = ctx.p
    args_cls = p.get_class("src.args:Args")
    fields = [f.name for f in args_cls.fields]
    ck.floor("C04.1 Args fields", len(fields), 20)
    parse = p.lookup_method(args_cls, "parse", None)
    if parse is None:
        raise AnalysisError("Args.parse not found")
    dests = []
    from ..rules.common import option_declarations
    for n in option_declarations(ck)[1]:
        if True:
            d = [k.value.value for k in n.keywords if k.arg == "dest" and isinstance(k.value, ast.Constant)]
            if not d:
                raise AnalysisError(f"{where(parse, n)}: add_argument without literal dest")
            dests.append((d[0], n))
    ck.floor("C04.1 add_argument calls", len(dests), 20)
    dnames = [d for d, _ in dests]
    missing = [f for f in fields if f not in dnames]
    unknown = [(d, n) for d, n in dests if d not in fields]
    dup = sorted({d for d in dnames if dnames.count(d) > 1})
    ck.judge(not missing, "C04.1", "Args.parse:fields-covered", parse.where,
             "every Args field is filled by an add_argument(dest=...)", found=f"no option for {missing}" if missing else
             f"{len(fields)} fields")
    for d, n in unknown:
        ck.violation("C04.1", f"Args.parse:dest:{d}", where(parse, n), "add_argument dest is not a field of Args "
                     "(the value is parsed but never reaches a component)", found=d, required=f"one of {fields}")
    ck.judge(not dup, "C04.1", "Args.parse:dest-unique", parse.where, "each dest is filled by one option",
             found=f"duplicate dest {dup}" if dup else None)
    # option strings unique
    opts = []
    for d, n in dests:
        for a in n.args:
            if isinstance(a, ast.Constant) and isinstance(a.value, str):
                opts.append(a.value)
    dupo = sorted({o for o in opts if opts.count(o) > 1})
    ck.judge(not dupo, "C04.1", "Args.parse:options-unique", parse.where, "option strings are unique",
             found=f"duplicate {dupo}" if dupo else None)

    # ---- factory bindings
    factory = p.find_method("WorkflowCoordinatorFactory", "create")
    args_t = self_attr("args")
    n_bind = 0
    seen_new = {}
    assigned_names: Dict[Term, str] = {}
    for pa in explore(ck, factory):
        for e in pa.events:
            if e.kind == "assign" and isinstance(e.node, ast.Assign) and isinstance(e.node.targets[0], ast.Name) \
                    and e.term[0] == "new":
                assigned_names[e.term] = e.node.targets[0].id
        for t, facts, node, kind in path_terms(pa):
            for x in T.subterms(t):
                if x[0] == "new":
                    seen_new.setdefault(x, node)
    ck.floor("C04.1 component constructions in the factory", len(seen_new), 8)
    for new, node in seen_new.items():
        cls = p.classes[new[1]]
        params = [k for k, _ in new[2]]
        all_params = [pp.name for pp in (p.constructor_params(cls) or [])]
        bound_fields = {}
        for pname, t in new[2]:
            if t[0] == "attr" and t[1] == args_t:
                bound_fields[pname] = t[2]
            elif T.is_num_const(t) or (t[0] == "c" and isinstance(t[1], (str, bool)) and pname != "*"):
                # literal where a configured value is expected?
                cands = [f for f in fields if _overlap(f, pname) > 0]
                if cands and cls.name not in ("_WorkflowCoordinator", "_MultiPassWorkflowCoordinator"):
                    ck.violation("C04.1", f"factory:{cls.name}.{pname}", where(factory, node),
                                 f"parameter {pname} of {cls.name} is bound to a literal although the command line offers "
                                 f"{cands}", found=T.show(t), required=f"self.args.{cands[0]}")
        # a configurable parameter left to its default: the option is parsed and then ignored
        if cls.name not in ("_WorkflowCoordinator", "_MultiPassWorkflowCoordinator") and "*" not in params:
            for pname in all_params:
                if pname in params:
                    continue
                cands = [f for f in fields if _overlap(f, pname) > 0]
                if cands:
                    best_f = max(cands, key=lambda f: _overlap(f, pname))
                    ck.violation("C04.1", f"factory:{cls.name}.{pname}:unbound", where(factory, node),
                                 f"parameter {pname} of {cls.name} is left to its default although the command line offers --{best_f}: the "
                                 "option is parsed and never reaches the component", found=T.show(new)[:120],
                                 required=f"{cls.name}(..., {pname}=self.args.{best_f})")
        # a configured value that is altered on its way into the component (clamped, scaled, combined with another option)
        for pname, t in new[2]:
            if t[0] == "attr" and t[1] == args_t:
                continue
            touched = [x[2] for x in T.subterms(t) if x[0] == "attr" and x[1] == args_t]
            if touched and t[0] not in ("new", "app"):
                ck.violation("C04.1", f"factory:{cls.name}.{pname}:altered", where(factory, node),
                             f"parameter {pname} of {cls.name} does not receive the command-line value itself but an expression over "
                             f"{sorted(set(touched))}: the component then works with a setting the user did not give",
                             found=T.show(t)[:160], required=f"self.args.<option> passed through unchanged")
        if not bound_fields:
            continue
        w = where(factory, node)
        # (0) the component stores the configured value itself: a constructor that keeps `x or DEFAULT`, `abs(x)`, `max(x, 1)` ...
        # works with another setting than the one given whenever the expression changes the value (a configured 0 is falsy)
        init = p.lookup_method(cls, "__init__", None)
        if init is not None and init.self_name and not cls.is_dataclass:
            for pname in bound_fields:
                for n in ast.walk(init.node):
                    if isinstance(n, ast.Assign) and len(n.targets) == 1 and isinstance(n.targets[0], ast.Attribute) \
                            and isinstance(n.targets[0].value, ast.Name) and n.targets[0].value.id == init.self_name \
                            and not isinstance(n.value, ast.Name) \
                            and any(isinstance(x, ast.Name) and x.id == pname for x in ast.walk(n.value)) \
                            and isinstance(n.value, (ast.BoolOp, ast.IfExp, ast.Call, ast.BinOp, ast.UnaryOp)) \
                            and not (isinstance(n.value, ast.Call) and ast.unparse(n.value.func) not in ("abs", "max", "min", "int", "round", "float")):
                        ck.violation("C04.1", f"component:{cls.name}.__init__:{pname}:altered", where(init, n),
                                     f"{cls.name} stores its parameter `{pname}` (the command-line value args.{bound_fields[pname]}) in "
                                     "altered form: for some legitimate values (a configured 0 is falsy, a negative penalty has no abs) the "
                                     "component works with another setting than the one given",
                                     found=ast.unparse(n)[:140], required=f"self.{n.targets[0].attr} = {pname}")
        # (1) each bound field is a best match for its parameter among all Args fields
        for pname, f in bound_fields.items():
            n_bind += 1
            mine = _overlap(f, pname)
            best = max(_overlap(g, pname) for g in fields)
            construct = f"factory:{cls.name}.{pname}"
            if mine == best and mine > 0:
                ck.ok("C04.1", construct, w, f"{pname} <- args.{f} (best name match, overlap {mine})")
            elif best == 0 and mine == 0:
                ck.ok("C04.1", construct, w, f"{pname} <- args.{f} (no better candidate)")
            else:
                better = [g for g in fields if _overlap(g, pname) == best]
                ck.violation("C04.1", construct, w,
                             f"{cls.name}({pname}=...) is bound to args.{f} although args.{better[0]} is the matching "
                             f"command-line value", found=f"args.{f}", required=f"args.{better[0]}")
        # (2) no better permutation of the same fields over the same parameters (exchanged arguments)
        ps = list(bound_fields)
        fs = [bound_fields[k] for k in ps]
        cur = sum(_overlap(f, k) for f, k in zip(fs, ps))
        if len(ps) <= 6:
            best_perm = max(sum(_overlap(f, k) for f, k in zip(perm, ps)) for perm in itertools.permutations(fs))
            ck.judge(cur == best_perm, "C04.1", f"factory:{cls.name}:argument-order", w,
                     f"arguments of {cls.name}(...) are not exchanged", found=f"{dict(zip(ps, fs))}",
                     required="the assignment with the best name agreement")
        # (3) the variable that keeps the component carries the same primary/secondary role as the fields
        var = assigned_names.get(new)
        if var:
            for pname, f in bound_fields.items():
                fam = R.conflict(R.tokens(f), R.tokens(var))
                ck.judge(fam is None, "C04.1", f"factory:{var}<-args.{f}", w,
                         f"component variable {var} and args.{f} carry compatible roles",
                         found=f"{var} built from args.{f}: conflict in {fam}" if fam else None)
    ck.floor("C04.1 constructor bindings to args fields", n_bind, 12)

    # ---- generators per pass (anchor table from the property's mechanism: primary = getInitialAlignment, secondary = refine)
    table = {"getInitialAlignment": "primaryGenerator", "refine": "secondaryGenerator"}
    coord = p.find_class("_WorkflowCoordinator")
    judged = 0
    seen_callees = set()
    for m in coord.methods.values():
        for site in ctx.cg.sites.get(m.qualname, []):
            for c in site.repo_callees():
                if c.kind == "fn" and c.fn.name in table:
                    params = c.params(p)
                    from ..callgraph import bind_args
                    binding, _ = bind_args(params, site.node)
                    def _through_locals(e0, f0=m):
                        # a plain local bound once in the method (an attribute chain hoisted out of the call) stands for what it was bound to
                        for _ in range(3):
                            if not isinstance(e0, ast.Name):
                                break
                            vals = [n0.value for n0 in ast.walk(f0.node) if isinstance(n0, ast.Assign) and len(n0.targets) == 1
                                    and isinstance(n0.targets[0], ast.Name) and n0.targets[0].id == e0.id]
                            stores = sum(1 for n0 in ast.walk(f0.node) if isinstance(n0, ast.Name) and n0.id == e0.id and isinstance(n0.ctx, ast.Store))
                            if len(vals) != 1 or stores != 1:
                                break
                            e0 = vals[0]
                        return e0
                    binding = {k0: _through_locals(v0) for k0, v0 in binding.items()}
                    g = binding.get("sequenceGenerator")
                    if g is None:
                        raise AnalysisError(f"{site.where}: sequenceGenerator argument of {c.fn.name} not bound")
                    for q0 in params:
                        # a configurable parameter left to a default that mirrors the command line's: the option is ignored at this site
                        if q0.name not in binding and q0.name in fields:
                            ck.violation("C04.1", f"{short(m)}->{c.fn.name}:{q0.name}:unbound", site.where,
                                         f"parameter {q0.name} of {c.fn.name} is left to its default at this call although the command line "
                                         f"offers --{q0.name}: the option reaches one strand / one pass and not the other",
                                         found=ast.unparse(site.node)[:160], required=f"{q0.name}=self.args.{q0.name}")
                    judged += 1
                    seen_callees.add(c.fn.name)
                    want = table[c.fn.name]
                    ok = isinstance(g, ast.Attribute) and isinstance(g.value, ast.Name) and g.attr == want
                    ck.judge(ok, "C04.1", f"{short(m)}->{c.fn.name}:generator", site.where,
                             f"{c.fn.name} uses the {want}", found=ast.unparse(g), required=f"self.{want}")
                    # every self.args.X argument must be the like-named parameter
                    for pname, a in binding.items():
                        if isinstance(a, ast.Attribute) and isinstance(a.value, ast.Name):
                            base = _through_locals(a.value)
                            if base is not a.value:
                                a = ast.Attribute(value=base, attr=a.attr, ctx=ast.Load())
                        if isinstance(a, ast.Attribute) and isinstance(a.value, ast.Attribute) and a.value.attr == "args":
                            mine = _overlap(a.attr, pname)
                            best = max(_overlap(a.attr, q.name) for q in params)
                            ck.judge(mine == best and mine > 0, "C04.1", f"{short(m)}->{c.fn.name}:{pname}", site.where,
                                     f"{pname} <- args.{a.attr}", found=f"args.{a.attr} bound to {pname}",
                                     required="the like-named parameter")
    # functools.partial(<obj>.getInitialAlignment, <leading arguments>): the leading arguments are bound as in a call
    for m in coord.methods.values():
        for node in ast.walk(m.node):
            if not (isinstance(node, ast.Call) and ast.unparse(node.func) in ("partial", "functools.partial") and node.args
                    and isinstance(node.args[0], ast.Attribute) and node.args[0].attr in table):
                continue
            name = node.args[0].attr
            cands = [f for f in p.nontest_functions() if f.name == name and f.cls is not None and not f.is_lambda]
            if len(cands) != 1:
                raise AnalysisError(f"{where(m, node)}: partial over {name}: the method is not unique in the repository")
            from ..callgraph import bind_args
            call2 = ast.Call(func=node.args[0], args=list(node.args[1:]), keywords=list(node.keywords))
            binding, _ = bind_args(cands[0].call_params(), call2)
            g = binding.get("sequenceGenerator")
            if g is None:
                raise AnalysisError(f"{where(m, node)}: sequenceGenerator argument of partial({name}, ...) not bound")
            judged += 1
            seen_callees.add(name)
            want = table[name]
            ok = isinstance(g, ast.Attribute) and isinstance(g.value, ast.Name) and g.attr == want
            ck.judge(ok, "C04.1", f"{short(m)}->{name}:generator", where(m, node), f"{name} uses the {want}", found=ast.unparse(g),
                     required=f"self.{want}")
            for pname, a in binding.items():
                if isinstance(a, ast.Attribute) and isinstance(a.value, ast.Attribute) and a.value.attr == "args":
                    mine = _overlap(a.attr, pname)
                    best = max(_overlap(a.attr, q.name) for q in cands[0].call_params())
                    ck.judge(mine == best and mine > 0, "C04.1", f"{short(m)}->{name}:{pname}", where(m, node),
                             f"{pname} <- args.{a.attr}", found=f"args.{a.attr} bound to {pname}", required="the like-named parameter")
    # (three call sites on the pinned tree - forward, reverse, refine; a shared helper for the two strands leaves two)
    ck.floor("C04.1 generator uses in the coordinator", judged, 2)
    ck.floor("C04.1 passes whose generator is judged (primary, secondary)", len(seen_callees), 2)


def scorer_total(ck, rule):
    """The scorer answers with one scored position for every position it is given - paired or not, in the same order: the conflict
    resolver counts the labels of both overlapping sub-runs position by position and relies on the unpaired ones being there."""
    p = ck.ctx.p
    ck.clause(rule, "the scorer returns one scored position per position it receives (no position filtered away, whatever the penalties)")
    sc = p.find_method("AlignmentPositionScorer", "getScoredPositions")
    prm = V(sc.call_params()[0].name)
    n = 0
    for pa in explore(ck, sc):
        if pa.outcome != "return":
            continue
        n += 1
        v = pa.value
        while v[0] == "call" and v[1] in ("list", "tuple") and len(v[2]) == 1:
            v = v[2][0]
        w = where(sc, pa.node)
        if v[0] == "comp" and len(v[3]) == 1:
            it, ifs = v[3][0]
            src = it
            while src[0] == "call" and src[1] in ("list", "tuple", "iter") and len(src[2]) == 1:
                src = src[2][0]
            if src == prm and not ifs:
                ck.ok(rule, short(sc) + ":total", w, "every position handed in is scored", T.show(v)[:120])
            elif ifs or (src[0] == "comp" and src[3] and src[3][0][1]):
                ck.violation(rule, short(sc) + ":total", w,
                             "positions are filtered before / while they are scored: segments built from the result lack them (unpaired "
                             "labels dropped because they cost nothing shift the label counts conflict resolution cuts by)",
                             found=T.show(v)[:200], required="[p.getScoredPosition(...) for p in positions]")
            else:
                raise AnalysisError(f"{w}: what the scorer iterates is not its positions parameter: {T.show(src)[:120]}")
        else:
            raise AnalysisError(f"{w}: the scorer's result is not a comprehension over its positions: {T.show(v)[:160]}")
    ck.floor(f"{rule} return paths of the scorer", n, 1)


# ------------------------------------------------------------------------------------------------------------ C04.2
def ownership(ck, rows=True, create_callers=None):
    """create_callers: class names; when given, create() is judged as those classes call it - a path of create that needs an optional
    argument (default None) none of their call sites passes is not a path of theirs (C13 borrows the rule for the segment builder:
    a precomputed score handed over by the conflict resolver is C04's and C15's concern, not C13's)."""
    ctx = ck.ctx
    p = ctx.p
    seg = p.find_class("AlignmentSegment")
    create = p.lookup_method(seg, "create", None)
    if create is None:
        raise AnalysisError("AlignmentSegment.create not found")
    never_passed = never_passed_params(ck, create, create_callers)
    return _ownership(ck, rows, seg, create, never_passed)


def never_passed_params(ck, create, create_callers):
    """parameters of `create` that no call site inside the named classes passes (positionally, by keyword or through * / **)"""
    ctx = ck.ctx
    never_passed = []
    if create_callers:
        cparams = [pp.name for pp in create.call_params()]
        passed = set()
        n_sites = 0
        for site in ctx.cg.sites_calling(create):
            cls = getattr(site.caller, "cls", None)
            if cls is None or cls.name not in create_callers:
                continue
            n_sites += 1
            if any(isinstance(a, ast.Starred) for a in site.node.args) or any(k.arg is None for k in site.node.keywords):
                passed.update(cparams)
            passed.update(cparams[:len(site.node.args)])
            passed.update(k.arg for k in site.node.keywords if k.arg)
        if not n_sites:
            raise AnalysisError(f"{create.where}: no call of AlignmentSegment.create from {create_callers}")
        never_passed = [V(n) for n in cparams if n not in passed]
    return never_passed


def assume_absent(assumptions, never_passed):
    """The assumptions of a path, read with the never-passed optional parameters at their default None: `x is None` holds,
    `x is not None` does not, and / or / not are folded. None when the path cannot be taken then."""
    def fold(c):
        if c[0] == "isnone" and c[1] in never_passed:
            return C(True)
        if c[0] == "notnone" and c[1] in never_passed:
            return C(False)
        if c[0] == "not":
            inner = fold(c[1])
            if inner in (C(True), C(False)):
                return C(inner == C(False))
            return ("not", inner)
        if c[0] in ("and", "or"):
            parts = [fold(x) for x in c[1]]
            absorbing, neutral = (C(False), C(True)) if c[0] == "and" else (C(True), C(False))
            if absorbing in parts:
                return absorbing
            parts = [x for x in parts if x != neutral]
            if not parts:
                return neutral
            return parts[0] if len(parts) == 1 else (c[0], tuple(parts))
        return c
    out = []
    for c, tv, node in assumptions:
        f = fold(c) if never_passed else c
        if f in (C(True), C(False)):
            if (f == C(True)) != bool(tv):
                return None
            continue
        out.append((f, tv, node))
    return out


def _ownership(ck, rows, seg, create, never_passed):
    ctx = ck.ctx
    p = ctx.p
    # (a) raw constructor sites
    raw = ctx.cg.sites_constructing(seg)
    n_raw = 0
    for site in raw:
        n_raw += 1
        if site.caller is create:
            continue
        ck.violation("C04.2", f"{short(site.caller)}:raw-AlignmentSegment", site.where,
                     "AlignmentSegment(...) is constructed directly, with a score that is not tied to its positions "
                     "(only AlignmentSegment.create may do that)", found=ast.unparse(site.node)[:200],
                     required="AlignmentSegment.create(positions, peak, allPeakPositions)")
    ck.floor("C04.2 raw AlignmentSegment constructions", n_raw, 1)
    # score == sum over the same positions object
    ok_any = False
    for pa in explore(ck, create):
        if pa.outcome != "return":
            continue
        if assume_absent(pa.state.assumptions, never_passed) is None:
            continue                # needs an optional argument the judged callers never pass
        for x in T.subterms(pa.value):
            if x[0] == "new" and x[1] == seg.qualname:
                a = dict(x[2])
                pos, score = a.get("positions"), a.get("segmentScore")
                want = T.mk_call("sum", [("comp", "gen", T.mk_attr(("bv", 0), "score"), ((pos, ()),))])
                alt = T.mk_call("sum", [("comp", "list", T.mk_attr(("bv", 0), "score"), ((pos, ()),))])
                ok = score in (want, alt)
                ok_any = True
                ck.judge(ok, "C04.2", "AlignmentSegment.create:score", where(create, pa.node),
                         "segment score = sum of the scores of exactly the positions stored", found=T.show(score)[:200],
                         required=T.show(want))
    if not ok_any:
        raise AnalysisError(f"{create.where}: AlignmentSegment construction not found in create")
    # subclasses calling super().__init__ : positions [] and score 0
    for sub in p.all_subclasses(seg):
        if sub.module.is_test:
            continue
        init = sub.methods.get("__init__")
        if init is None:
            continue
        for pa in explore(ck, init):
            for e in pa.events:
                if e.kind == "call" and e.term[0] == "app" and e.term[1].endswith("AlignmentSegment.__init__"):
                    a = dict(e.term[3])
                    ok = a.get("positions") == ("list", ()) and a.get("segmentScore") == C(0)
                    ck.judge(ok, "C04.2", f"{sub.name}.__init__:super", where(init, e.node),
                             "subclass constructor passes no positions and score 0", found=T.show(e.term)[:200],
                             required="positions=[], segmentScore=0")
    # (b) writers of segment fields outside constructors
    n_stores = 0
    for fn in p.nontest_functions():
        if not fn.module.name.startswith("src."):
            continue
        for n in ast.walk(fn.node) if not fn.is_lambda else []:
            targets = []
            if isinstance(n, ast.Assign):
                targets = n.targets
            elif isinstance(n, (ast.AugAssign, ast.AnnAssign)):
                targets = [n.target]
            for tg in targets:
                for t in ast.walk(tg):
                    if isinstance(t, ast.Attribute) and isinstance(t.ctx, ast.Store) and t.attr in SEGMENT_FIELDS:
                        if ctx.p.enclosing_function(fn.module, n) is not fn:
                            continue
                        n_stores += 1
                        in_init = fn.name == "__init__" and isinstance(t.value, ast.Name) and t.value.id == fn.self_name
                        if in_init:
                            continue
                        ck.violation("C04.2", f"{short(fn)}:store:{t.attr}", where(fn, n),
                                     f"attribute `{t.attr}` is assigned outside a constructor: a segment's score and content "
                                     f"can drift apart", found=ast.unparse(n)[:160], required="build a new segment with "
                                     "AlignmentSegment.create")
    ck.floor("C04.2 stores to positions/segmentScore/alignedPositions seen", n_stores, 4)
    ck.ok("C04.2", "segment-fields:writers", seg.where, f"{n_stores} stores to segment fields, all inside constructors")
    # (c) in-place mutation of position lists
    n_mut = 0
    for fn in p.nontest_functions():
        if not fn.module.name.startswith("src.alignment") or fn.is_lambda:
            continue
        for site in ctx.cg.sites.get(fn.qualname, []):
            f = site.node.func
            if isinstance(f, ast.Attribute) and f.attr in MUTATORS:
                recv = f.value
                text = ast.unparse(recv)
                last = recv.attr if isinstance(recv, ast.Attribute) else (recv.id if isinstance(recv, ast.Name) else None)
                if last is None:
                    continue
                if isinstance(recv, ast.Attribute) and last in ("positions", "alignedPositions", "allPeakPositions"):
                    n_mut += 1
                    ck.violation("C04.2", f"{short(fn)}:mutate:{text}", site.where,
                                 f"in-place `{f.attr}` on `{text}`: a segment's positions change without its score",
                                 found=ast.unparse(site.node)[:120], required="no in-place mutation of stored positions")
                elif isinstance(recv, ast.Name) and any(pp.name == recv.id for pp in fn.params):
                    # mutation of a parameter list: allowed only if every caller passes a fresh local list and does
                    # so before constructing the segment
                    n_mut += 1
                    _check_param_mutation(ck, fn, recv.id, site)
    ck.extra["c04_mutation_sites"] = n_mut
    # (d) scored positions are only made by getScoredPosition
    for cname in ("ScoredAlignedPair", "ScoredNotAlignedPosition"):
        cls = p.find_class(cname)
        sites = ctx.cg.sites_constructing(cls)
        ck.floor(f"C04.2 {cname} constructions", len(sites), 1)
        for site in sites:
            ok = site.caller.name == "getScoredPosition"
            ck.judge(ok, "C04.2", f"{short(site.caller)}:new-{cname}", site.where,
                     f"{cname} is constructed only by getScoredPosition (nothing downstream re-scores a position)",
                     found=f"constructed in {short(site.caller)}", required="only inside getScoredPosition")
    # (e) who may construct result rows with a confidence
    if not rows:
        return
    rowc = p.find_class("AlignmentResultRow")
    rcreate = p.lookup_method(rowc, "create", None)
    for site in ctx.cg.sites_constructing(rowc):
        ok = site.caller is rcreate
        ck.judge(ok, "C04.2", f"{short(site.caller)}:raw-AlignmentResultRow", site.where,
                 "AlignmentResultRow(...) with an explicit confidence is built only by AlignmentResultRow.create",
                 found=ast.unparse(site.node)[:160], required="AlignmentResultRow.create(...)")


def _check_param_mutation(ck, fn: FunctionInfo, pname: str, site):
    ctx = ck.ctx
    callers = ctx.cg.sites_calling(fn)
    if not callers:
        ck.ok("C04.2", f"{short(fn)}:mutate-param:{pname}", site.where, "helper mutates its parameter; no callers")
        return
    idx = [i for i, pp in enumerate(fn.call_params()) if pp.name == pname]
    for cs in callers:
        if cs.caller.module.is_test:
            continue
        from ..callgraph import bind_args
        binding, _ = bind_args(fn.call_params(), cs.node)
        arg = binding.get(pname)
        fresh = False
        if isinstance(arg, ast.Name):
            # local assigned from list(...)/comprehension/literal in the caller and used to construct afterwards
            for n in ast.walk(cs.caller.node):
                if isinstance(n, ast.Assign) and any(isinstance(t, ast.Name) and t.id == arg.id for t in n.targets):
                    v = n.value
                    if isinstance(v, (ast.List, ast.ListComp)) or (isinstance(v, ast.Call) and isinstance(v.func, ast.Name)
                                                                  and v.func.id in ("list", "sorted")):
                        fresh = True
                    if isinstance(v, ast.Subscript) and isinstance(v.slice, ast.Slice):
                        fresh = True          # a slice of a list is a new list
                    if isinstance(v, ast.BinOp) and isinstance(v.op, ast.Add) and any(
                            isinstance(x, (ast.List, ast.ListComp)) or (isinstance(x, ast.Subscript) and isinstance(x.slice, ast.Slice))
                            for x in (v.left, v.right)):
                        fresh = True          # so is a concatenation
            # the mutation must precede the construction
            before = True
            for n in ast.walk(cs.caller.node):
                if isinstance(n, ast.Call) and "create" in ast.unparse(n.func) and any(
                        isinstance(a, ast.Name) and a.id == arg.id for a in n.args):
                    if n.lineno < cs.node.lineno:
                        before = False
            fresh = fresh and before
        ck.judge(fresh, "C04.2", f"{short(cs.caller)}->{short(fn)}:mutated-argument", cs.where,
                 f"{short(fn)} mutates its `{pname}` argument in place: the caller passes a fresh local list, before the "
                 "segment is constructed", found=ast.unparse(cs.node)[:140],
                 required="a fresh local list, mutated before AlignmentSegment.create")


# ------------------------------------------------------------------------------------------------------------ C04.3
def confidence(ck):
    ctx = ck.ctx
    fn = ctx.p.find_method("AlignmentResultRow", "create")
    for pa in explore(ck, fn):
        if pa.outcome != "return":
            continue
        v = pa.value
        if v[0] != "new":
            raise AnalysisError(f"{where(fn, pa.node)}: create does not return a constructor call")
        a = dict(v[2])
        segs, conf = a.get("segments"), a.get("confidence")
        if segs is None or conf is None:
            raise AnalysisError(f"{where(fn, pa.node)}: segments / confidence argument not bound")
        want = [T.mk_call("sum", [("comp", k, T.mk_attr(("bv", 0), "segmentScore"), ((segs, ()),))]) for k in ("gen", "list")]
        if conf in want:
            ck.ok("C04.3", "AlignmentResultRow.create:confidence", where(fn, pa.node),
                  "confidence = sum(s.segmentScore for s in <the segments stored>)", T.show(conf)[:160])
        else:
            is_reduction = conf[0] == "call" and conf[1] in ("sum", "max", "min", "statistics.fmean", "numpy.sum", "len")
            if is_reduction or T.is_num_const(conf) or conf[0] in ("poly", "attr", "idx"):
                ck.violation("C04.3", "AlignmentResultRow.create:confidence", where(fn, pa.node),
                             "confidence is not the sum of the scores of the stored segments", found=T.show(conf)[:200],
                             required=T.show(want[0])[:200])
            else:
                raise AnalysisError(f"{where(fn, pa.node)}: confidence computation not recognised: {T.show(conf)[:160]}")


def segments_carry_their_own_peak(ck, rule):
    """A segment is built from the positions that were paired and scored along ONE seed diagonal and remembers that seed (its
    `peak`): Confidence is recomputed from the maps with segment.peak.position, and the conflict resolver compares peak positions.
    Positions computed for one peak handed to the factory together with another peak (two lists paired by position after one of
    them was re-ordered) give records whose Confidence belongs to other pairs than the diagonal it names."""
    p = ck.ctx.p
    ck.clause(rule, "Aligner.align hands the segments factory the scored positions of a peak together with THAT peak: the positions "
                    "argument is computed from the peak argument (never two separately ordered lists paired by position)")
    fn = p.find_method("Aligner", "align")
    same = lambda f: f.cls is fn.cls
    n = 0
    for pa in explore(ck, fn, inline=2, inline_ok=same, unroll=(0, 1)):
        if pa.outcome != "return":
            continue
        for x in T.subterms(pa.value):
            if not (x[0] == "app" and x[1].endswith("AlignmentSegmentsFactory.getSegments")):
                continue
            a = dict(x[3])
            pos, peak = a.get("positions"), a.get("peak")
            if pos is None or peak is None:
                raise AnalysisError(f"{where(fn, pa.node)}: arguments of the segments factory not bound")
            n += 1
            w = where(fn, pa.node)
            if T.contains(pos, peak):
                ck.ok(rule, short(fn) + ":own-peak", w, "the positions are computed from the peak they are handed over with", T.show(pos)[:120])
                continue
            # two components of one zipped element: the lists must be ordered alike
            zips = [y for y in T.subterms(pa.value) if y[0] == "call" and y[1] == "zip" and len(y[2]) == 2]
            if pos[0] == "idx" and peak[0] == "idx" and pos[1] == peak[1] and zips:
                z = zips[0]
                sorted_side = [s0 for s0 in z[2] if any(y[0] == "call" and y[1] in ("sorted", "reversed") for y in T.subterms(s0))]
                if len(sorted_side) == 1:
                    ck.violation(rule, short(fn) + ":own-peak", w,
                                 "positions and peak are the two components of a zipped pair, and only one of the two lists was re-ordered: "
                                 "from the first peak that is out of order on, the positions paired along one diagonal are stored with "
                                 "another peak (more than ten refined peaks arrive in argpartition order)",
                                 found=T.show(z)[:200], required="getSegments(<positions of p>, p) for each p of one list")
                    continue
            raise AnalysisError(f"{w}: how positions and peak of a segment belong together is not recognised: {T.show(pos)[:100]}")
    ck.floor(rule + " segment constructions in Aligner.align", n, 1)


# ------------------------------------------------------------------------------------------------------------ C04.4
def formula(ck):
    ctx = ck.ctx
    p = ctx.p
    pair = p.find_method("AlignedPair", "getScoredPosition")
    for pa in explore(ck, pair, inline=1, inline_ok=lambda f: f.is_property):
        if pa.outcome != "return":
            continue
        v = pa.value
        if v[0] != "new":
            raise AnalysisError(f"{pair.where}: getScoredPosition does not return a constructor call")
        a = dict(v[2])
        score = a.get("score")
        dist = T.mk_call("abs", [self_attr("queryShift")])
        want = T.p_sub(V("perfectMatchScore"), T.p_mul(V("distancePenaltyMultiplier"), dist))
        ck.judge(score == want, "C04.4", "AlignedPair.getScoredPosition", where(pair, pa.node),
                 "pair score = perfectMatchScore - distancePenaltyMultiplier * |queryShift|", found=T.show(score)[:200],
                 required=T.show(want))
        ck.judge(a.get("pair") == V(pair.self_name), "C04.4", "AlignedPair.getScoredPosition:pair", where(pair, pa.node),
                 "the scored pair wraps the pair itself", found=T.show(a.get("pair", C(None))))
    un = p.find_method("NotAlignedPosition", "getScoredPosition")
    n = 0
    for pa in explore(ck, un):
        if pa.outcome != "return":
            continue
        v = pa.value
        a = dict(v[2]) if v[0] == "new" else {}
        n += 1
        ck.judge(a.get("score") == V("unmatchedPenalty"), "C04.4", "NotAlignedPosition.getScoredPosition", where(un, pa.node),
                 "unpaired label score = unmatchedPenalty", found=T.show(a.get("score", C(None))), required="unmatchedPenalty")
    ck.floor("C04.4 unmatched-score return paths", n, 1)
    # the scorer hands its three configured values to getScoredPosition in this order
    sc = p.find_method("AlignmentPositionScorer", "getScoredPositions")
    ok = False
    for pa in explore(ck, sc):
        if pa.outcome != "return":
            continue
        for x in T.subterms(pa.value):
            if x[0] == "app" and x[1].endswith("getScoredPosition"):
                a = dict(x[3])
                want = {k: self_attr(k) for k in ("perfectMatchScore", "distancePenaltyMultiplier", "unmatchedPenalty")}
                ok = True
                ck.judge(all(a.get(k) == v for k, v in want.items()), "C04.4", "AlignmentPositionScorer.getScoredPositions",
                         where(sc, pa.node), "the scorer passes its configured values to the like-named parameters",
                         found=T.show(x)[:240])
    if not ok:
        raise AnalysisError(f"{sc.where}: call of getScoredPosition not found in the scorer")
    # AlignedPair.distance / offset definition
    dist = p.lookup_method(p.find_class("AlignedPair"), "distance", None)
    if dist is None:
        raise AnalysisError("AlignedPair.distance not found")
    for pa in explore(ck, dist):
        if pa.outcome == "return":
            ck.judge(pa.value == T.mk_call("abs", [self_attr("queryShift")]), "C04.4", "AlignedPair.distance",
                     where(dist, pa.node), "distance = |queryShift|", found=T.show(pa.value), required="abs(self.queryShift)")


# ------------------------------------------------------------------------------------------------------------ C04.5
def pipeline(ck):
    ctx = ck.ctx
    fn = ctx.p.find_method("Aligner", "getSegments")
    rets = [pa for pa in explore(ck, fn) if pa.outcome == "return"]
    if len(rets) != 1:
        raise AnalysisError(f"{fn.where}: Aligner.getSegments expected to be straight-line")
    v = rets[0].value
    w = where(fn, rets[0].node)
    peak = V("peak")
    ok_shape = v[0] == "app" and v[1].endswith("AlignmentSegmentsFactory.getSegments")
    if not ok_shape:
        raise AnalysisError(f"{w}: segments are not produced by the injected segments factory: {T.show(v)[:160]}")
    a = dict(v[3])
    ck.judge(a.get("peak") == peak, "C04.5", "Aligner.getSegments:peak", w,
             "segments are cut for the seed peak that produced the positions", found=T.show(a.get("peak", C(None))))
    scored = a.get("positions")
    if scored is None or scored[0] != "app" or not scored[1].endswith("AlignmentPositionScorer.getScoredPositions"):
        ck.violation("C04.5", "Aligner.getSegments:scorer", w, "positions handed to the segments factory are not scored by "
                     "the configured scorer", found=T.show(scored)[:200] if scored else "None",
                     required="self.scorer.getScoredPositions(...)")
        return
    ck.ok("C04.5", "Aligner.getSegments:scorer", w, "positions are scored by the injected AlignmentPositionScorer")
    eng = dict(scored[3]).get("positions")
    if eng is None or eng[0] != "app" or not eng[1].endswith("AlignerEngine.align"):
        raise AnalysisError(f"{w}: scored positions do not come from the pairing engine: {T.show(eng)[:160] if eng else None}")
    e = dict(eng[3])
    start = T.mk_attr(peak, "position")
    ck.judge(e.get("referenceStartPosition") == start, "C04.5", "Aligner.getSegments:diagonal", w,
             "pairing runs along the diagonal of the seed peak (window starts at peak.position)",
             found=T.show(e.get("referenceStartPosition", C(None))), required="peak.position")
    want_end = T.p_add(start, T.mk_attr(V("query"), "length"))
    ck.judge(e.get("referenceEndPosition") == want_end, "C04.5", "Aligner.getSegments:window-end", w,
             "window ends one query length after the peak", found=T.show(e.get("referenceEndPosition", C(None))),
             required=T.show(want_end))
    ck.judge(e.get("reference") == V("reference") and e.get("query") == V("query") and e.get("isReverse") == V("isReverse"),
             "C04.5", "Aligner.getSegments:maps", w, "reference, query and strand are passed through",
             found=T.show(eng)[:200])

"""C12 - pairing along a seed diagonal partitions labels and pairs nearest neighbours (structural clauses).

  C12.1  both windows are closed intervals widened by maxDistance: reference window {x | start-d <= x <= end+d},
         candidate window {q | adj-d <= q <= adj+d} with adj = reference position - seed
  C12.2  offset definition: queryShift = query position - (reference position - seed)
  C12.3  partition by construction: the unpaired lists are computed from the *same* two position lists as the
         candidates, against the *de-duplicated* pairs that are returned, by complement on siteId; the result is the
         sorted concatenation of de-duplicated pairs and unpaired positions
  C12.4  label numbers on both strands (as C02.5)
  C12.5  de-duplication shape (as C01.4)
Declined: "strictly mutual nearest neighbours are always paired" and order preservation for arbitrary geometries.
"""
from __future__ import annotations

import ast
from ..loader import AnalysisError, mangle
from .. import terms as T
from ..terms import C, V
from ..rules.common import explore, where, short, self_attr
from .c02 import numbering
from .c01 import dedupe


def _label_equality_covers_site_id(ck):
    """PositionWithSiteId: True when == compares siteId (a dataclass with generated __eq__ whose siteId field takes part),
    False when it positively does not (field(compare=False) on siteId, eq=False), None when not recognised (hand-written __eq__)."""
    cls = ck.ctx.p.find_class("PositionWithSiteId")
    if cls is None or not cls.is_dataclass:
        return None
    if "__eq__" in cls.methods or "__hash__" in cls.methods or cls.bases:
        return None
    deco = next((d for d in cls.node.decorator_list if "dataclass" in ast.unparse(d)), None)
    if isinstance(deco, ast.Call):
        for k in deco.keywords:
            if k.arg == "eq" and isinstance(k.value, ast.Constant) and k.value.value is False:
                return False
            if k.arg == "eq" and not isinstance(k.value, ast.Constant):
                return None
    for st in cls.node.body:
        if isinstance(st, ast.AnnAssign) and isinstance(st.target, ast.Name) and st.target.id == "siteId":
            if st.value is None:
                return True
            if isinstance(st.value, ast.Call) and ast.unparse(st.value.func).split(".")[-1] == "field":
                for k in st.value.keywords:
                    if k.arg == "compare":
                        if isinstance(k.value, ast.Constant):
                            return bool(k.value.value)
                        return None
                return True
            return True
    return None


def _count_truncated_window(t):
    """W[:c] / W[:k][:c] (c a constant int), alone or as a member of a concatenation whose members are all slices of one recognised
       window W: returns the offending slice term, else None (anything else stays unrecognised - a refusal, not a report)."""
    members = list(t[1]) if t[0] == "concat" else [t]
    hit = None
    for m in members:
        inner, consts = m, []
        while inner[0] == "slice":
            if inner[4] != T.NONE:
                return None
            consts.append((inner[2], inner[3]))
            inner = inner[1]
        if not consts or as_window(inner) is None:
            return None
        lo, hi = consts[0]                       # the outermost slice
        from_low_end = all(l == T.NONE for l, _ in consts)
        if from_low_end and hi[0] == "c" and isinstance(hi[1], int) and not isinstance(hi[1], bool) and hi[1] >= 0 and len(consts) >= 2:
            hit = hit or m
        elif from_low_end and hi[0] == "c" and isinstance(hi[1], int) and not isinstance(hi[1], bool) and hi[1] >= 0 and t[0] != "concat":
            hit = hit or m
    return hit


def as_window(t):
    """list(takewhile(lambda x: x.position <= H, dropwhile(lambda x: x.position < L, SRC)))
       -> dict(src, lo, hi, lo_incl, hi_incl)  (L, H as terms; bound variable position = ('attr', bv, 'position'))"""
    while t[0] == "call" and t[1] in ("list", "iter", "tuple") and len(t[2]) == 1:
        t = t[2][0]
    if t[0] == "comp" and len(t[3]) == 1 and t[2][0] == "bv":
        # [x for x in SRC if L <= x.position <= H]
        it, ifs = t[3][0]
        conds = []
        for c in ifs:
            conds.extend(c[1] if c[0] == "and" else [c])
        xpos = T.mk_attr(t[2], "position")
        lo = hi = None
        for c in conds:
            r = _bound(c, xpos)
            if r is None:
                return None
            kind, val, incl = r
            if kind == "lower":
                lo = (val, incl)
            else:
                hi = (val, incl)
        if lo and hi:
            return {"src": it, "lo": lo[0], "lo_incl": lo[1], "hi": hi[0], "hi_incl": hi[1]}
        return None
    bis = _bisect_window(t)
    if bis is not None:
        return bis
    if not (t[0] == "call" and t[1].endswith("takewhile") and len(t[2]) == 2):
        return None
    tw_pred, inner = t[2]
    if not (inner[0] == "call" and inner[1].endswith("dropwhile") and len(inner[2]) == 2):
        return None
    dw_pred, src = inner[2]
    if tw_pred[0] != "lam" or dw_pred[0] != "lam":
        return None

    def lam_var(lam):
        lv = [x[1] for x in T.subterms(lam[2]) if x[0] == "bv"]
        return ("bv", min(lv)) if lv else None
    tv, dv = lam_var(tw_pred), lam_var(dw_pred)
    if tv is None or dv is None:
        return None
    # takewhile keeps while pred true: pred is an upper bound on x.position
    up = _bound(T.as_bool(tw_pred[2]), T.mk_attr(tv, "position"))
    # dropwhile drops while pred true: pred "x.position < L" -> kept region is the negation
    low = _bound(T.mk_not(T.as_bool(dw_pred[2])), T.mk_attr(dv, "position"))
    if up is None or low is None or up[0] != "upper" or low[0] != "lower":
        return None
    return {"src": src, "lo": low[1], "lo_incl": low[2], "hi": up[1], "hi_incl": up[2]}


def _bisect_window(t):
    """(PositionWithSiteId(i + 1 + shift, XS[i]) for i in range(bisect_X(XS, L), bisect_Y(XS, H)))  over a sorted XS:
       bisect_left(XS, L) is the first index with XS[i] >= L (inclusive lower end), bisect_right the first with XS[i] > L;
       as upper limit, bisect_right(XS, H) keeps XS[i] <= H (inclusive), bisect_left keeps XS[i] < H (exclusive)"""
    if not (t[0] == "comp" and len(t[3]) == 1 and not t[3][0][1]):
        return None
    it = t[3][0][0]
    if not (it[0] == "call" and it[1] == "range" and len(it[2]) == 2 and not it[3]):
        return None
    b_lo, b_hi = it[2]

    def parse(b):
        if b[0] == "call" and b[1].split(".")[-1] in ("bisect_left", "bisect_right", "bisect") and len(b[2]) == 2:
            return b[1].split(".")[-1], b[2][0], b[2][1]
        return None
    lo, hi = parse(b_lo), parse(b_hi)
    if lo is None or hi is None or lo[1] != hi[1]:
        return None
    xs = lo[1]
    elt = t[2]
    bvs = [x for x in T.subterms(elt) if x[0] == "bv"]
    if not bvs or elt[0] != "new":
        return None
    i = bvs[0]
    a = dict(elt[2])
    owner = xs[1] if xs[0] == "attr" and xs[2] == "positions" else None
    ok_elt = owner is not None and a.get("position") == T.mk_idx(xs, i) and \
        a.get("siteId") == T.p_add(T.p_add(i, C(1)), T.mk_attr(owner, "shift"))
    if not ok_elt:
        return None
    # same source as owner.getPositionsWithSiteIds(): expressed as that call so the caller's source test applies
    src = ("app", "src.correlation.optical_map:OpticalMap.getPositionsWithSiteIds", owner, ())
    return {"src": src, "lo": lo[2], "lo_incl": lo[0] == "bisect_left", "hi": hi[2], "hi_incl": hi[0] in ("bisect_right", "bisect")}


def _bound(c, xpos):
    """c is  p < 0 / p <= 0  with p linear in xpos with coefficient +-1  ->  ('upper'|'lower', bound term, inclusive)"""
    if c[0] not in ("lt", "le"):
        return None
    items = T.to_poly(c[1])
    coeff = items.get((xpos,))
    if coeff not in (1, -1):
        return None
    rest = T.from_poly({m: k for m, k in items.items() if m != (xpos,)})
    incl = c[0] == "le"
    if coeff == 1:      # x + rest (<|<=) 0  ->  x (<|<=) -rest
        return "upper", T.p_neg(rest), incl
    return "lower", rest, incl      # -x + rest (<|<=) 0 -> x (>|>=) rest


def absolute_positions(ck, rule):
    """the merged list is sorted by absolutePosition: a pair and an unpaired reference label sit at their reference coordinate,
    an unpaired query label at its query coordinate shifted onto the reference by the seed; ordering is strict on that value"""
    from ..rules.common import merged_return
    p = ck.ctx.p
    ck.clause(rule, "ordering of the merged list: absolutePosition = reference coordinate (pairs, unpaired reference labels) / "
                    "query coordinate + seed offset (unpaired query labels); positions compare by it")
    want = {"AlignedPair": T.mk_attr(self_attr("reference"), "position"),
            "NotAlignedReferencePosition": T.mk_attr(self_attr("reference"), "position"),
            "NotAlignedQueryPosition": T.p_add(T.mk_attr(self_attr("query"), "position"), self_attr("referenceStart"))}
    for cname, w in want.items():
        cls = p.find_class(cname)
        m = cls.methods.get("absolutePosition")
        if m is None:
            raise AnalysisError(f"{cls.where}: {cname}.absolutePosition not found")
        v, pa = merged_return(ck, m)
        ck.judge(v == w, rule, short(m), where(m, pa.node), f"absolute position of a {cname}", found=T.show(v)[:120], required=T.show(w)[:120])
    base = p.find_class("AlignmentPosition")
    lt = base.methods.get("__lt__")
    if lt is None:
        raise AnalysisError(f"{base.where}: AlignmentPosition.__lt__ not found")
    other = V(lt.call_params()[0].name)
    v, pa = merged_return(ck, lt)
    w = T.mk_lt(self_attr("absolutePosition"), T.mk_attr(other, "absolutePosition"))
    ck.judge(T.as_bool(v) == w, rule, short(lt), where(lt, pa.node), "positions are ordered by absolute position (strictly: sorted() is "
             "stable, equal positions keep pairs before unpaired labels)", found=T.show(v)[:120], required=T.show(w)[:120])
    # the seed offset stored in an unpaired query label is the constructor argument
    q = p.find_class("NotAlignedQueryPosition")
    from ..rules.effects import init_param_to_attr
    m = init_param_to_attr(ck.ctx, q)
    ck.judge(m.get("referenceStart") == "referenceStart" and m.get("query") == "query", rule, "NotAlignedQueryPosition.__init__",
             q.where, "constructor stores the label and the seed offset under their own names", found=str(m))


CONVERSIONS = {"int", "float", "round", "abs", "floor", "ceil", "trunc", "rint", "around", "max", "min", "clip"}


def stored_unconverted(ck, rule, mods=None):
    """the position classes keep the coordinates, offsets and scores their constructors receive: no int()/round()/abs() on the
    way in (label positions and offsets of real maps are decimals; a truncated offset no longer equals
    query position - (reference position - seed), and truncated distances tie where the nearest label is unique)"""
    ck.clause(rule, "position objects store coordinates and offsets as given (no rounding / truncation in their constructors)")
    p = ck.ctx.p
    mods = mods or ("src.alignment.alignment_position", "src.correlation.optical_map", "src.correlation.peak")
    n = 0
    hit = False
    for c in p.classes.values():
        if c.module.name not in mods:
            continue
        for mname in ("__init__", "__post_init__"):
            m = c.methods.get(mname)
            if m is None or not m.self_name:
                continue
            params = {pp.name for pp in m.call_params()}
            for node in ast.walk(m.node):
                if isinstance(node, ast.Assign) and len(node.targets) == 1 and isinstance(node.targets[0], ast.Attribute) \
                        and isinstance(node.targets[0].value, ast.Name) and node.targets[0].value.id == m.self_name:
                    n += 1
                    for call in ast.walk(node.value):
                        if isinstance(call, ast.Call):
                            fname = call.func.id if isinstance(call.func, ast.Name) else call.func.attr if isinstance(call.func, ast.Attribute) else ""
                            uses = {x.id for a in call.args for x in ast.walk(a) if isinstance(x, ast.Name)} & params
                            if fname in CONVERSIONS and uses:
                                hit = True
                                ck.violation(rule, f"{c.name}.{mname}:{node.targets[0].attr}", where(m, node),
                                             f"{c.name} stores a converted copy of its `{sorted(uses)[0]}` argument: decimal coordinates / "
                                             "offsets are changed on the way in", found=ast.unparse(node)[:120],
                                             required=f"self.{node.targets[0].attr} = {sorted(uses)[0]}")
    ck.floor(f"{rule} constructor stores inspected", n, 15 if len(mods) == 3 else 10)
    if not hit:
        ck.ok(rule, "position classes", "src/alignment/alignment_position.py", f"{n} constructor stores: none converts its argument")


def candidate_scan_complete(ck, rule):
    """Every (reference label, query label) combination inside the window is offered to de-duplication: the candidate generator
    leaves its loops only where the window ends. A `break` under any other test (an exact hit, a first hit, a count) takes the
    current reference label away from the later query labels of the window: in the first round they fall back to a farther
    reference label and nobody competes for that one in the second - crossing pairs, a label paired with a non-nearest partner."""
    p = ck.ctx.p
    ck.clause(rule, "the candidate generator offers every pair of the window: its loops are left only at the window's end (a test against "
                    "maxDistance) - never on a property of the candidate just produced")
    eng = p.find_class("AlignerEngine")
    gens = [m for m in eng.methods.values() if any(isinstance(x, ast.Yield) and isinstance(x.value, ast.Call) and
                                                    "AlignedPair" in ast.unparse(x.value.func) for x in ast.walk(m.node))]
    if not gens:
        ck.ok(rule, "AlignerEngine:candidates", eng.where, "candidates are not produced by a generator with loops of its own (judged under C12.1)")
        return
    for g in gens:
        parents = {c: par for par in ast.walk(g.node) for c in ast.iter_child_nodes(par)}
        def own_loop_above(x):
            for a in _ancestors(parents, x):
                if isinstance(a, (ast.FunctionDef, ast.AsyncFunctionDef, ast.Lambda)):
                    return False                 # a statement of a nested function: its `return` leaves that function, not the scan
                if isinstance(a, (ast.For, ast.While)):
                    return True
            return False
        exits = [x for x in ast.walk(g.node) if isinstance(x, (ast.Break, ast.Return)) and own_loop_above(x)]
        bad = None
        for x in exits:
            tests = [a.test for a in _ancestors(parents, x) if isinstance(a, ast.If)]
            # names that stand for a window bound: assigned from an expression that mentions maxDistance (directly or through
            # another such name)
            bound_names = set()
            for _ in range(3):
                for asg in [y for y in ast.walk(g.node) if isinstance(y, ast.Assign) and len(y.targets) == 1 and isinstance(y.targets[0], ast.Name)]:
                    txt = ast.unparse(asg.value)
                    if "maxDistance" in txt or any(isinstance(z, ast.Name) and z.id in bound_names for z in ast.walk(asg.value)):
                        bound_names.add(asg.targets[0].id)
            if any("maxDistance" in ast.unparse(t) or any(isinstance(z, ast.Name) and z.id in bound_names for z in ast.walk(t))
                   for t in tests):
                raise AnalysisError(f"{where(g, x)}: the window's end is written as an early exit, which is not analysed here")
            bad = bad or (x, tests)
        if bad:
            x, tests = bad
            ck.violation(rule, f"{short(g)}:early-exit", where(g, x),
                         "the scan of the window is left early under a test that is no window bound: the query labels behind this one lose "
                         "the current reference label as a candidate, fall back to a farther one in the first de-duplication round, and "
                         "nothing competes for that one in the second - crossing pairs, labels out of order, a non-nearest partner",
                         found=("if " + ast.unparse(tests[0])[:100] + ": " if tests else "") + ("break" if isinstance(x, ast.Break) else "return"),
                         required="every label of the window is offered (the window's end is the only exit)")
        else:
            ck.ok(rule, f"{short(g)}:early-exit", g.where, "the candidate loops run over the whole window")


def _ancestors(parents, node):
    out = []
    while node in parents:
        node = parents[node]
        out.append(node)
    return out


def run(ck):
    ctx = ck.ctx
    p = ctx.p
    # (a seed that was altered when the Peak was built is another seed, not another pairing: peak.py is judged under C16.8 / C05.13)
    stored_unconverted(ck, "C12.7", mods=("src.alignment.alignment_position", "src.correlation.optical_map"))
    if ck.wants("C12.9"):
        candidate_scan_complete(ck, "C12.9")
    ck.clause("C12.1", "reference and candidate windows are closed intervals widened by maxDistance")
    ck.clause("C12.2", "offset = query position - (reference position - seed)")
    ck.clause("C12.3", "unpaired = complement (by siteId) of the returned de-duplicated pairs over the same position lists")
    ck.clause("C12.4", "label numbering on both strands")
    ck.clause("C12.5", "de-duplication by query label and by reference label keeping the nearest")
    eng = p.find_class("AlignerEngine")
    align = p.lookup_method(eng, "align", None)
    if align is None:
        raise AnalysisError("AlignerEngine.align not found")
    from ..rules.common import merged_return
    v, ret0 = merged_return(ck, align)          # several return paths are folded into one conditional term
    # a value that depends on a condition (e.g. labels taken from a cache on one path) is pushed inside the common shape
    from ..rules.common import push_select_inside
    v = push_select_inside(v)
    w = where(align, ret0.node)
    d = self_attr("maxDistance")
    ap = [V(pp.name) for pp in align.call_params()]
    if len(ap) < 5:
        raise AnalysisError(f"{align.where}: AlignerEngine.align(reference, query, start, end, isReverse) expected")
    REF, QRY, start, end, REV = ap[:5]

    def name_of(bound: dict, pred):
        """parameter name of a helper whose argument at the call site satisfies pred (provenance, not spelling)"""
        hits = [k for k, v in bound.items() if pred(v)]
        return hits[0] if len(hits) == 1 else None

    # ---- locate the helper calls by role
    apps = [x for x in T.subterms(v) if x[0] == "app"]
    ded = [x for x in apps if x[1].endswith("AlignedPair.deduplicate")]
    if not ded:
        ck.violation("C12.3", short(align) + ":deduplicated", w, "the returned pairs are not de-duplicated (a label can be "
                     "paired twice)", found=T.show(v)[:200], required="AlignedPair.deduplicate(candidates)")
        return
    cand = list(dict(ded[0][3]).values())[0] if ded[0][3] else None
    while cand is not None and cand[0] == "call" and cand[1] in ("list", "iter", "tuple") and len(cand[2]) == 1:
        cand = cand[2][0]
    if cand is None or cand[0] != "app":
        raise AnalysisError(f"{w}: candidate pair generator not found")
    cand_fn = p.get_function(cand[1])
    ca = dict(cand[3])
    pR = name_of(ca, lambda v: T.contains(v, REF) and not T.contains(v, QRY))
    pQ = name_of(ca, lambda v: T.contains(v, QRY) and not T.contains(v, REF))
    pS = name_of(ca, lambda v: v == start)
    if None in (pR, pQ, pS):
        raise AnalysisError(f"{w}: arguments of the candidate generator not recognised by provenance: {T.show(cand)[:200]}")
    R, Q = ca[pR], ca[pQ]
    D = None
    for x in T.subterms(v):
        if x[0] == "call" and x[1] == "list" and x[2] and x[2][0] == ded[0]:
            D = x
    D = D or ded[0]
    # ---- C12.3 result shape
    ok_shape = v[0] == "call" and v[1] == "sorted" and not dict(v[3]).get("reverse") and "key" not in dict(v[3])
    parts = None
    if ok_shape:
        inner = v[2][0]
        if inner[0] == "call" and inner[1].endswith("chain") and len(inner[2]) == 2:
            parts = inner[2]
        elif inner[0] == "concat" and len(inner[1]) == 2:
            parts = inner[1]
    if parts is None:
        raise AnalysisError(f"{w}: result is not sorted(chain(pairs, unpaired)): {T.show(v)[:160]}")
    ck.ok("C12.3", short(align) + ":sorted-union", w, "result = sorted(pairs + unpaired) (ascending absolute position)")
    un = [x for x in parts if x[0] == "app" and "NotAligned" in x[1]]
    inline_un = None
    if not un:
        # the helper was read through (moved / renamed / inlined): the part that builds NotAligned*Position objects is judged in place
        cand_un = [x for x in parts if any(y[0] == "new" and "NotAligned" in y[1] for y in T.subterms(x))]
        if len(cand_un) != 1:
            raise AnalysisError(f"{w}: unpaired-positions helper not found among {[T.show(x)[:40] for x in parts]}")
        inline_un = cand_un[0]
    pr = [x for x in parts if x is not (un[0] if un else inline_un)]
    ck.judge(pr[0] == D, "C12.3", short(align) + ":returned-pairs", w, "the pairs returned are the de-duplicated ones",
             found=T.show(pr[0])[:120])
    ua = dict(un[0][3]) if un else {"#R": R, "#Q": Q, "#D": D, "#S": start}
    uR = name_of(ua, lambda v: v == R)
    uQ = name_of(ua, lambda v: v == Q)
    uS = name_of(ua, lambda v: v == start)
    others = [k for k in ua if k not in (uR, uQ, uS)]
    uD = others[0] if len(others) == 1 else None
    ck.judge(uD is not None and ua.get(uD) == D, "C12.3", short(align) + ":complement-against", w,
             "unpaired labels are the complement of the *de-duplicated* pairs (the ones that are returned)",
             found=T.show(ua.get(uD, C(None)))[:160] if uD else str(sorted(ua)), required="the same de-duplicated list")
    ck.judge(uR is not None and uQ is not None, "C12.3", short(align) + ":same-lists", w,
             "candidates and complement are computed from the same reference-window and query label lists",
             found=f"reference list passed on: {uR is not None}, query list passed on: {uQ is not None}")
    ck.judge(uS is not None, "C12.3", short(align) + ":seed", w, "candidates and unpaired query labels use the same seed offset",
             found=str({k: T.show(v)[:40] for k, v in ua.items()}))
    if None in (uR, uQ, uD, uS):
        return
    # query labels on the requested strand, reference labels never reversed
    qsrc = Q
    while qsrc is not None and qsrc[0] == "call" and qsrc[1] == "list":
        qsrc = qsrc[2][0]
    ok_q = qsrc is not None and qsrc[0] == "app" and qsrc[1].endswith("getPositionsWithSiteIds") and qsrc[2] == QRY \
        and list(dict(qsrc[3]).values()) == [REV]
    ck.judge(bool(ok_q), "C12.3", short(align) + ":query-labels", w, "all labels of the query, on the requested strand",
             found=T.show(Q)[:120], required="list(query.getPositionsWithSiteIds(isReverse))")
    # ---- C12.1 reference window
    if R is None:
        raise AnalysisError(f"{w}: reference window helper not found")
    if R[0] == "app":
        rw_fn = p.get_function(R[1])
        ra = dict(R[3])
        wREF, wS, wE = name_of(ra, lambda v: v == REF), name_of(ra, lambda v: v == start), name_of(ra, lambda v: v == end)
        ck.judge(None not in (wREF, wS, wE), "C12.1", short(align) + ":window-args", w,
                 "the window helper receives reference, start and end unchanged", found=T.show(R)[:160])
        if None in (wREF, wS, wE):
            return
        h_start, h_end, h_ref = V(wS), V(wE), V(wREF)
        wins = [(pa.value, where(rw_fn, pa.node)) for pa in explore(ck, rw_fn) if pa.outcome == "return"]
    else:
        # the window helper was read through (moved / renamed / inlined): the window expression is judged in place
        rw_fn = align
        h_start, h_end, h_ref = start, end, REF
        inner_R = R
        while inner_R[0] == "call" and inner_R[1] in ("list", "tuple") and len(inner_R[2]) == 1:
            inner_R = inner_R[2][0]
        wins = [(inner_R, w)]
    for wv, ww in wins:
        win = as_window(wv)
        if win is None:
            raise AnalysisError(f"{ww}: reference window idiom not recognised: {T.show(wv)[:200]}")
        want_lo, want_hi = T.p_sub(h_start, d), T.p_add(h_end, d)
        ck.judge(win["lo"] == want_lo and win["lo_incl"], "C12.1", short(rw_fn) + ":lower", ww,
                 "reference window includes labels at exactly start - maxDistance",
                 found=f"x {'>=' if win['lo_incl'] else '>'} {T.show(win['lo'])}", required=f"x >= {T.show(want_lo)}")
        ck.judge(win["hi"] == want_hi and win["hi_incl"], "C12.1", short(rw_fn) + ":upper", ww,
                 "reference window includes labels at exactly end + maxDistance",
                 found=f"x {'<=' if win['hi_incl'] else '<'} {T.show(win['hi'])}", required=f"x <= {T.show(want_hi)}")
        src = win["src"]
        ok = src[0] == "app" and src[1].endswith("getPositionsWithSiteIds") and src[2] == h_ref and not dict(src[3])
        ck.judge(bool(ok), "C12.1", short(rw_fn) + ":source", ww, "the window is cut from the reference's forward labels",
                 found=T.show(src)[:120])
    # ---- C12.1 candidate window + C12.2 offset
    n_y = 0
    for pa in explore(ck, cand_fn, unroll=(1,)):
        emitted = [(e.term, e.node) for e in pa.events if e.kind == "yield"]
        if not emitted and pa.outcome == "return" and pa.value is not None and pa.value[0] == "list":
            # the candidates collected in a list and handed back, instead of being yielded one by one
            emitted = [(x, pa.node) for x in pa.value[1]]
        for t, enode in emitted:
            n_y += 1
            we = where(cand_fn, enode)
            if t[0] != "new" or not t[1].endswith(":AlignedPair"):
                raise AnalysisError(f"{we}: candidate generator does not yield AlignedPair(...)")
            a = dict(t[2])
            r, q, shift = a.get("reference"), a.get("query"), a.get("queryShift")
            if r is None or q is None or shift is None:
                raise AnalysisError(f"{we}: AlignedPair arguments not bound")
            if q[0] == "elem" and q[1] == V(pQ) and not (r[0] == "elem" and r[1] == V(pR)):
                # the nesting the other way round - every query label in the outer loop, its reference labels cut out of the window
                # (by bisection, say): the same candidates in another order; none of the rules below is written for that shape
                raise AnalysisError(f"{we}: the candidate scan runs over the query labels and selects reference labels for each "
                                    f"(transposed nesting): not analysed")
            adj = T.p_sub(T.mk_attr(r, "position"), V(pS))
            want_shift = T.p_sub(T.mk_attr(q, "position"), adj)
            ck.judge(shift == want_shift, "C12.2", short(cand_fn) + ":offset", we,
                     "offset = query position - (reference position - seed)", found=T.show(shift)[-200:],
                     required="q.position - (r.position - seed)")
            ck.judge(r[0] == "elem" and r[1] == V(pR), "C12.1", short(cand_fn) + ":every-reference-label", we,
                     "every reference label of the window is offered candidates", found=T.show(r)[:80])
            # ... unconditionally: a test on the reference label in front of the scan decides which labels get candidates at all
            for c0, tv0, n0 in pa.state.assumptions:
                parts = list(c0[1]) if c0[0] in ("and", "or") else [c0]
                for c1 in parts:
                    if not any(x == r for x in T.subterms(c1)):
                        continue
                    rp = T.mk_attr(r, "position")
                    units_mixed = False
                    if c1[0] in ("lt", "le") and c1[1][0] == "poly":
                        items = dict(T.to_poly(c1[1]))
                        a_r = items.get((rp,), 0)
                        a_s = items.get((V(pS),), 0)
                        q_pos = [k for k in items if len(k) == 1 and k[0][0] == "attr" and k[0][2] == "position" and
                                 any(y == V(pQ) for y in T.subterms(k[0]))]
                        units_mixed = a_r != 0 and a_s == 0 and bool(q_pos)
                    if units_mixed:
                        ck.violation("C12.1", short(cand_fn) + ":every-reference-label:guard", where(cand_fn, n0),
                                     "a reference label is skipped by comparing its reference coordinate with query coordinates - which are "
                                     "relative to the seed: for a negative seed, labels exactly on the diagonal get no candidates and "
                                     "mutual nearest neighbours stay unpaired", found=T.show(c1)[:200],
                                     required="no test, or one on reference position - seed")
                    else:
                        raise AnalysisError(f"{where(cand_fn, n0)}: a condition on the reference label in front of the candidate scan is "
                                            f"not understood: {T.show(c1)[:160]}")
            if q[0] != "elem":
                raise AnalysisError(f"{we}: query candidate is not drawn from a window")
            win = as_window(q[1])
            if win is None:
                cut = _count_truncated_window(q[1])
                if cut is not None:
                    ck.violation("C12.1", short(cand_fn) + ":every-query-label:count", we,
                                 "the candidates are a recognised window cut down by *count* (a slice with a constant end taken from the "
                                 "window's low end): of several labels on one side of the reference label only the first - the farthest - "
                                 "is offered, so a reference label and a query label that are each other's nearest partner within "
                                 "maxDistance are not paired as soon as a second label lies on that side",
                                 found=T.show(cut)[:160], required="every label of the window is a candidate")
                    continue
                raise AnalysisError(f"{we}: candidate window idiom not recognised: {T.show(q[1])[:200]}")
            want_lo, want_hi = T.p_sub(adj, d), T.p_add(adj, d)
            ck.judge(win["lo"] == want_lo and win["lo_incl"], "C12.1", short(cand_fn) + ":lower", we,
                     "candidates include a query label at exactly -maxDistance from the diagonal",
                     found=f"q {'>=' if win['lo_incl'] else '>'} {T.show(win['lo'])}", required=f"q >= {T.show(want_lo)}")
            ck.judge(win["hi"] == want_hi and win["hi_incl"], "C12.1", short(cand_fn) + ":upper", we,
                     "candidates include a query label at exactly +maxDistance from the diagonal",
                     found=f"q {'<=' if win['hi_incl'] else '<'} {T.show(win['hi'])}", required=f"q <= {T.show(want_hi)}")
            ck.judge(win["src"] == V(pQ), "C12.1", short(cand_fn) + ":source", we,
                     "candidates are drawn from the query label list", found=T.show(win["src"])[:80])
    ck.floor("C12 candidate emissions", n_y, 1)
    # ---- C12.3 complement by siteId
    if un:
        un_fn = p.get_function(un[0][1])
        E_R, E_Q, E_D, E_S = V(uR), V(uQ), V(uD), V(uS)
        returns = [(pa.value, where(un_fn, pa.node)) for pa in explore(ck, un_fn) if pa.outcome == "return"]
    else:
        un_fn = align
        E_R, E_Q, E_D, E_S = R, Q, D, start
        returns = [(inline_un, w)]
    for rv, wu in returns:
        parts0 = list(rv[1] if rv[0] == "concat" else [rv])
        # `<selection> if xs else []`: the selection (over an empty list it is empty anyway)
        parts0 = [(x[2] if x[3] == ("list", ()) else x[3]) if x[0] == "select" and ("list", ()) in (x[2], x[3]) else x for x in parts0]
        comps = [x for x in parts0 if x[0] == "comp"]
        if len(comps) == 1 and comps[0][2][0] == "new":
            missing = "query" if "Reference" in comps[0][2][1] else "reference"
            ck.violation("C12.3", short(un_fn) + ":both-sides", wu, f"unpaired {missing} labels are not returned: the pairing step no "
                         f"longer partitions the {missing} labels", found=T.show(rv)[:200], required="unpaired reference + unpaired query labels")
            continue
        if len(comps) != 2:
            raise AnalysisError(f"{wu}: unpaired positions are not the concatenation of two selections: {T.show(rv)[:200]}")
        sides = {}
        deferred = []
        for c0 in comps:
            elt = c0[2]
            it, ifs = c0[3][0]
            if elt[0] == "new":
                # label numbers used as list offsets / range bounds: they ascend along the reference and a forward query but
                # descend along a reverse-strand query, whose range(first, last + 1) is empty
                by_number = [x for x in T.subterms(c0) if x[0] == "call" and x[1] == "range" and
                             any(y[0] == "attr" and y[2] == "siteId" for a0 in x[2] for y in T.subterms(a0))]
                if by_number and "Reference" in elt[1]:
                    # along the reference (and its contiguous window) label numbers do ascend: not shown wrong, not recognised either
                    deferred.append(f"{wu}: unpaired reference labels enumerated by label-number arithmetic: {T.show(c0)[:160]}")
                    sides["reference"] = (False, False, c0)
                    continue
                if by_number:
                    side0 = "query"
                    ck.violation("C12.3", short(un_fn) + ":site-id-order", wu,
                                 "unpaired query labels are enumerated by label-number arithmetic: label numbers descend along a "
                                 "reverse-strand query, so none of its unpaired labels is returned (and the mirror image is scored differently)",
                                 found=T.show(by_number[0])[:160],
                                 required="selection by membership: [.. for x in positions if x.siteId not in aligned ids]")
                    sides[side0] = (False, False, c0)
                    continue
            if elt[0] != "new" or len(ifs) != 1:
                raise AnalysisError(f"{wu}: unpaired selection not recognised: {T.show(c0)[:160]}")
            side = "reference" if "Reference" in elt[1] else "query"
            bv = [x for x in T.subterms(elt) if x[0] == "bv"][0]
            cond = ifs[0]
            if cond[0] == "notin" and cond[2][0] == "comp" and cond[2][2][0] == "app":
                from ..rules.common import expand_simple_apps
                cond = expand_simple_apps(ck, cond)          # label numbers taken through a selector function
            okc = cond[0] == "notin" and cond[1] == T.mk_attr(bv, "siteId") and cond[2][0] == "comp" and \
                cond[2][3][0][0] == E_D and cond[2][2] == T.mk_attr(T.mk_attr(cond[2][2][1][1], side), "siteId") \
                if cond[0] == "notin" and cond[2][0] == "comp" and cond[2][2][0] == "attr" and cond[2][2][1][0] == "attr" else False
            src_ok = it == (E_R if side == "reference" else E_Q)
            if not okc and cond[0] == "notin" and cond[1] == bv and cond[2][0] == "comp" and cond[2][3][0][0] == E_D \
                    and cond[2][2][0] == "attr" and cond[2][2][2] == side and cond[2][2][1][0] == "bv":
                # membership of the label object itself in the labels of the kept pairs: the same complement as long as two labels are
                # equal only when their label numbers are (decided from the label class: a dataclass that compares siteId)
                eq = _label_equality_covers_site_id(ck)
                if eq is True:
                    okc = True
                elif eq is False:
                    ck.violation("C12.3", short(un_fn) + ":" + side + ":label-identity", wu,
                                 f"unpaired {side} labels are selected by membership of the label object, and two labels of the label class "
                                 "are equal without having the same label number: an unpaired label that shares its coordinate with a "
                                 "paired label of the same map is dropped - the labels of the window are no longer each returned once",
                                 found=T.show(c0)[:200], required="membership by siteId, or a label class whose equality includes siteId")
                    sides[side] = (False, src_ok, c0)
                    continue
                else:
                    raise AnalysisError(f"{wu}: unpaired {side} labels are selected by membership of the label object and the equality of "
                                        f"the label class is not recognised")
            sides[side] = (okc, src_ok, c0)
            ck.judge(bool(okc) and src_ok, "C12.3", short(un_fn) + ":" + side, wu,
                     f"unpaired {side} labels = labels of the {side} list whose siteId is in no kept pair",
                     found=T.show(c0)[:200], required=f"[.. for x in {side}Positions if x.siteId not in [p.{side}.siteId for p in alignedPairs]]")
            if side == "query":
                a = dict(elt[2])
                vals = [v for k, v in a.items() if v == E_S]
                ck.judge(bool(vals), "C12.3", short(un_fn) + ":query-offset", wu,
                         "unpaired query labels are placed with the same seed offset", found=str({k: T.show(v) for k, v in a.items()}))
        if deferred:
            raise AnalysisError(deferred[0])
        ck.judge(set(sides) == {"reference", "query"}, "C12.3", short(un_fn) + ":both-sides", wu,
                 "both the reference and the query side have an unpaired list", found=str(sorted(sides)))
    numbering(ck, "C12.4")
    dedupe(ck, "C12.5")
    ck.clause("C12.8", "the quantity de-duplication minimises is the exact offset: AlignedPair.distance = |queryShift| (as C04.4) - a "
                       "saturated / rounded distance ties candidates that lie at different distances and the first one in label order wins")
    if ck.wants("C12.8"):
        from ..report import RuleView as _RV128
        from .c04 import formula as _f128
        _f128(_RV128(ck, {"C04.4": "C12.8"}, only_constructs=("AlignedPair.distance",)))
    absolute_positions(ck, "C12.6")

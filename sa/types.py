"""Light, annotation-driven type inference (flow-insensitive) used to resolve receivers.

mypy/pyright are not available in this sandbox; the repository is annotated densely enough
that parameter/return annotations, constructor flow into attributes and a few container rules
resolve almost every call between repository functions.
"""
from __future__ import annotations

import ast
from dataclasses import dataclass
from typing import Dict, List, Optional, Tuple

from .loader import Program, ClassInfo, FunctionInfo, Module, mangle


# ------------------------------------------------------------------ type terms
@dataclass(frozen=True)
class Inst:
    cls: ClassInfo

    def __repr__(self):
        return f"Inst({self.cls.name})"


@dataclass(frozen=True)
class ClsT:
    cls: ClassInfo

    def __repr__(self):
        return f"Class({self.cls.name})"


@dataclass(frozen=True)
class ListOf:
    elem: object

    def __repr__(self):
        return f"List[{self.elem!r}]"


@dataclass(frozen=True)
class TupleOf:
    elems: tuple

    def __repr__(self):
        return f"Tuple{list(self.elems)!r}"


@dataclass(frozen=True)
class FuncT:
    fn: FunctionInfo
    bound: bool = False

    def __repr__(self):
        return f"Func({self.fn.qualname})"


@dataclass(frozen=True)
class ModT:
    mod: Module


@dataclass(frozen=True)
class Ext:
    name: str

    def __repr__(self):
        return f"Ext({self.name})"


UNKNOWN = None

_LISTLIKE = {"List", "list", "Iterable", "Iterator", "Sequence", "Collection", "Set", "set", "FrozenSet",
             "Generator", "typing.List", "typing.Iterable", "typing.Iterator"}
_BUILTIN_SCALARS = {"int", "float", "str", "bool", "bytes", "complex"}


class Types:
    def __init__(self, program: Program):
        self.p = program
        self._env_cache: Dict[str, Dict[str, object]] = {}
        self._ret_cache: Dict[str, object] = {}
        self._ret_stack: List[str] = []
        self._attr_cache: Dict[Tuple[str, str], object] = {}
        self._attr_stack: List[Tuple[str, str]] = []

    # ---------------------------------------------------------------- annotations
    def ann_to_type(self, module: Module, ann: Optional[ast.expr]):
        if ann is None:
            return UNKNOWN
        if isinstance(ann, ast.Constant):
            if isinstance(ann.value, str):
                try:
                    return self.ann_to_type(module, ast.parse(ann.value, mode="eval").body)
                except SyntaxError:
                    return UNKNOWN
            return UNKNOWN
        if isinstance(ann, ast.Name):
            if ann.id in _BUILTIN_SCALARS:
                return Ext(ann.id)
            r = self.p.resolve_symbol(module, ann.id)
            if isinstance(r, ClassInfo):
                return Inst(r)
            if isinstance(r, tuple):
                return Ext(r[1])
            if ann.id in ("list", "List"):
                return ListOf(UNKNOWN)
            return UNKNOWN
        if isinstance(ann, ast.Attribute):
            r = self.p.resolve_name_expr(module, ann)
            if isinstance(r, ClassInfo):
                return Inst(r)
            if isinstance(r, tuple):
                return Ext(r[1])
            return UNKNOWN
        if isinstance(ann, ast.BinOp) and isinstance(ann.op, ast.BitOr):
            left = self.ann_to_type(module, ann.left)
            right = self.ann_to_type(module, ann.right)
            if _is_none_ann(ann.right):
                return left
            if _is_none_ann(ann.left):
                return right
            return left if left is not UNKNOWN else right
        if isinstance(ann, ast.Subscript):
            head = _dotted(ann.value)
            short = head.split(".")[-1] if head else ""
            args = ann.slice.elts if isinstance(ann.slice, ast.Tuple) else [ann.slice]
            if short in ("Optional",):
                return self.ann_to_type(module, args[0])
            if short in ("List", "list", "Iterable", "Iterator", "Sequence", "Collection", "Set", "set", "Generator"):
                return ListOf(self.ann_to_type(module, args[0]))
            if short in ("Tuple", "tuple"):
                return TupleOf(tuple(self.ann_to_type(module, a) for a in args))
            if short in ("Type", "type"):
                t = self.ann_to_type(module, args[0])
                return ClsT(t.cls) if isinstance(t, Inst) else UNKNOWN
            if short in ("Dict", "dict"):
                return Ext("dict")
            return UNKNOWN
        return UNKNOWN

    # ---------------------------------------------------------------- function environments
    def env(self, fn: FunctionInfo) -> Dict[str, object]:
        if fn.qualname in self._env_cache:
            return self._env_cache[fn.qualname]
        env: Dict[str, object] = {}
        self._env_cache[fn.qualname] = env   # placed first: recursion sees partial env
        if fn.parent is not None:
            env.update(self.env(fn.parent))
        for i, prm in enumerate(fn.params):
            t = self.ann_to_type(fn.module, prm.annotation)
            if i == 0 and fn.binds_self and fn.cls is not None:
                t = ClsT(fn.cls) if fn.is_classmethod else Inst(fn.cls)
            if t is UNKNOWN and prm.default is not None and not (isinstance(prm.default, ast.Constant)):
                t = self.type_of(fn, prm.default, env)
            env[prm.name] = t
        # nested defs are names too
        for ch in fn.children:
            if not ch.is_lambda:
                env[ch.name] = FuncT(ch)
        if not fn.is_lambda:
            for _ in range(2):
                for stmt in _iter_own_statements(fn.node):
                    self._bind_stmt(fn, stmt, env)
                # comprehension targets (flow-insensitive: comprehension variables share the env;
                # the repository does not reuse one name at two types inside a function)
                for node in _iter_own_nodes(fn.node):
                    if isinstance(node, (ast.ListComp, ast.SetComp, ast.GeneratorExp, ast.DictComp)):
                        for g in node.generators:
                            self._bind_target(fn, g.target, self._elem_type(self.type_of(fn, g.iter, env)), env)
                    elif isinstance(node, ast.NamedExpr) and isinstance(node.target, ast.Name):
                        self._bind_name(node.target.id, self.type_of(fn, node.value, env), env)
        else:
            for node in ast.walk(fn.node.body):
                if isinstance(node, (ast.ListComp, ast.SetComp, ast.GeneratorExp, ast.DictComp)):
                    for g in node.generators:
                        self._bind_target(fn, g.target, self._elem_type(self.type_of(fn, g.iter, env)), env)
        # un-annotated parameters: take the type of the argument when every call site in the module agrees
        if not fn.is_lambda and not fn.module.is_test and any(env.get(p.name) is UNKNOWN for p in fn.params):
            self._params_from_call_sites(fn, env)
        return env

    def _params_from_call_sites(self, fn: FunctionInfo, env):
        plain = fn.name
        if fn.cls is not None and plain.startswith("_" + fn.cls.name.lstrip("_") + "__"):
            plain = plain[len("_" + fn.cls.name.lstrip("_")):]
        params = [p for p in fn.params]
        offset = 1 if (fn.binds_self and fn.cls is not None) else 0
        found: Dict[str, list] = {}
        for g in self.p.functions.values():
            if g.module is not fn.module or g is fn or g.is_lambda:
                continue
            for node in ast.walk(g.node):
                if not isinstance(node, ast.Call):
                    continue
                f = node.func
                name = f.attr if isinstance(f, ast.Attribute) else f.id if isinstance(f, ast.Name) else None
                if name not in (plain, fn.name):
                    continue
                if any(isinstance(a, ast.Starred) for a in node.args):
                    continue
                for i, a in enumerate(node.args):
                    j = i + offset
                    if j < len(params) and env.get(params[j].name) is UNKNOWN:
                        try:
                            t = self.type_of(g, a)
                        except RecursionError:      # pragma: no cover
                            t = UNKNOWN
                        found.setdefault(params[j].name, []).append(t)
                for kw in node.keywords:
                    if kw.arg and env.get(kw.arg) is UNKNOWN and any(p.name == kw.arg for p in params):
                        found.setdefault(kw.arg, []).append(self.type_of(g, kw.value))
        for name, ts in found.items():
            known = [t for t in ts if t is not UNKNOWN]
            if known and len(known) == len(ts) and all(t == known[0] for t in known):
                env[name] = known[0]

    def _bind_name(self, name: str, t, env):
        if t is UNKNOWN:
            env.setdefault(name, UNKNOWN)
            return
        if env.get(name) is UNKNOWN or name not in env:
            env[name] = t

    def _bind_target(self, fn, target, t, env):
        if isinstance(target, ast.Name):
            self._bind_name(target.id, t, env)
        elif isinstance(target, (ast.Tuple, ast.List)):
            elems = None
            if isinstance(t, TupleOf) and len(t.elems) == len(target.elts):
                elems = t.elems
            for i, el in enumerate(target.elts):
                if isinstance(el, ast.Starred):
                    self._bind_target(fn, el.value, UNKNOWN, env)
                else:
                    self._bind_target(fn, el, elems[i] if elems else UNKNOWN, env)

    def _bind_stmt(self, fn, stmt, env):
        if isinstance(stmt, ast.Assign):
            t = self.type_of(fn, stmt.value, env)
            for tg in stmt.targets:
                self._bind_target(fn, tg, t, env)
        elif isinstance(stmt, ast.AnnAssign):
            t = self.ann_to_type(fn.module, stmt.annotation)
            if t is UNKNOWN and stmt.value is not None:
                t = self.type_of(fn, stmt.value, env)
            self._bind_target(fn, stmt.target, t, env)
        elif isinstance(stmt, (ast.For, ast.AsyncFor)):
            self._bind_target(fn, stmt.target, self._elem_type(self.type_of(fn, stmt.iter, env)), env)
        elif isinstance(stmt, (ast.With, ast.AsyncWith)):
            for item in stmt.items:
                if item.optional_vars is not None:
                    self._bind_target(fn, item.optional_vars, self.type_of(fn, item.context_expr, env), env)

    def _elem_type(self, t):
        if isinstance(t, ListOf):
            return t.elem
        if isinstance(t, TupleOf) and t.elems:
            return t.elems[0]
        return UNKNOWN

    # ---------------------------------------------------------------- expressions
    def type_of(self, fn: FunctionInfo, e: ast.expr, env: Optional[Dict[str, object]] = None):
        if env is None:
            env = self.env(fn)
        p = self.p
        if isinstance(e, ast.Name):
            if e.id in env:
                return env[e.id]
            r = p.resolve_symbol(fn.module, e.id)
            if isinstance(r, ClassInfo):
                return ClsT(r)
            if isinstance(r, FunctionInfo):
                return FuncT(r)
            if isinstance(r, Module):
                return ModT(r)
            if isinstance(r, tuple):
                return Ext(r[1])
            if e.id in _BUILTINS:
                return Ext("builtins." + e.id)
            return UNKNOWN
        if isinstance(e, ast.Attribute):
            base = self.type_of(fn, e.value, env)
            return self.attr_type(base, e.attr, fn.enclosing_class)
        if isinstance(e, ast.Call):
            return self._call_type(fn, e, env)
        if isinstance(e, ast.Subscript):
            base = self.type_of(fn, e.value, env)
            if isinstance(e.slice, ast.Slice):
                return base
            if isinstance(base, ListOf):
                return base.elem
            if isinstance(base, TupleOf):
                if isinstance(e.slice, ast.Constant) and isinstance(e.slice.value, int) and \
                        -len(base.elems) <= e.slice.value < len(base.elems):
                    return base.elems[e.slice.value]
                return UNKNOWN
            return UNKNOWN
        if isinstance(e, (ast.List, ast.Set)):
            ts = [self.type_of(fn, x, env) for x in e.elts if not isinstance(x, ast.Starred)]
            ts = [t for t in ts if t is not UNKNOWN]
            return ListOf(ts[0] if ts else UNKNOWN)
        if isinstance(e, ast.Tuple):
            return TupleOf(tuple(self.type_of(fn, x, env) for x in e.elts))
        if isinstance(e, (ast.ListComp, ast.SetComp, ast.GeneratorExp)):
            for g in e.generators:
                self._bind_target(fn, g.target, self._elem_type(self.type_of(fn, g.iter, env)), env)
            # isinstance narrowing:  [p for p in xs if isinstance(p, C)]
            if isinstance(e.elt, ast.Name):
                for g in e.generators:
                    for cond in g.ifs:
                        if isinstance(cond, ast.Call) and isinstance(cond.func, ast.Name) and cond.func.id == "isinstance" \
                                and len(cond.args) == 2 and isinstance(cond.args[0], ast.Name) \
                                and cond.args[0].id == e.elt.id:
                            ct = self.type_of(fn, cond.args[1], env)
                            if isinstance(ct, ClsT):
                                return ListOf(Inst(ct.cls))
            return ListOf(self.type_of(fn, e.elt, env))
        if isinstance(e, ast.IfExp):
            a = self.type_of(fn, e.body, env)
            b = self.type_of(fn, e.orelse, env)
            return _join(a, b)
        if isinstance(e, ast.BoolOp):
            ts = [self.type_of(fn, v, env) for v in e.values]
            ts = [t for t in ts if t is not UNKNOWN]
            return ts[0] if ts else UNKNOWN
        if isinstance(e, ast.BinOp):
            l = self.type_of(fn, e.left, env)
            r = self.type_of(fn, e.right, env)
            if isinstance(e.op, ast.Add) and isinstance(l, ListOf):
                return l if l.elem is not UNKNOWN else (r if isinstance(r, ListOf) else l)
            if isinstance(l, Inst):
                m = p.lookup_method(l.cls, _BINOP_DUNDER.get(type(e.op), "?"), None)
                if m:
                    return self.return_type(m)
            return UNKNOWN
        if isinstance(e, ast.NamedExpr):
            return self.type_of(fn, e.value, env)
        if isinstance(e, ast.Starred):
            return self.type_of(fn, e.value, env)
        if isinstance(e, ast.Lambda):
            lf = p.fn_of_node.get(id(e))
            return FuncT(lf) if lf else UNKNOWN
        if isinstance(e, ast.Constant):
            return Ext(type(e.value).__name__)
        if isinstance(e, ast.JoinedStr):
            return Ext("str")
        if isinstance(e, ast.Await):
            return self.type_of(fn, e.value, env)
        return UNKNOWN

    def attr_type(self, base, attr: str, accessing_class: Optional[ClassInfo]):
        p = self.p
        if isinstance(base, Inst):
            key = (base.cls.qualname, mangle(attr, accessing_class.name if accessing_class else None))
            if key in self._attr_cache:
                return self._attr_cache[key]
            if key in self._attr_stack:
                return UNKNOWN
            self._attr_stack.append(key)
            try:
                t = self._inst_attr_type(base.cls, attr, accessing_class)
            finally:
                self._attr_stack.pop()
            self._attr_cache[key] = t
            return t
        if isinstance(base, ClsT):
            m = p.lookup_method(base.cls, attr, accessing_class)
            if m:
                return FuncT(m)
            for c in p.mro(base.cls):
                if attr in c.class_assigns:
                    if c.is_enum:
                        return Inst(c)
                    return UNKNOWN
                for f in c.fields:
                    if f.name == attr:
                        if c.is_enum:
                            return Inst(c)
                        return self.ann_to_type(c.module, f.annotation)
            return UNKNOWN
        if isinstance(base, ModT):
            r = p.resolve_symbol(base.mod, attr)
            if isinstance(r, ClassInfo):
                return ClsT(r)
            if isinstance(r, FunctionInfo):
                return FuncT(r)
            if isinstance(r, Module):
                return ModT(r)
            return UNKNOWN
        if isinstance(base, Ext):
            return Ext(base.name + "." + attr)
        if isinstance(base, ListOf):
            return Ext("list." + attr)
        return UNKNOWN

    def _inst_attr_type(self, cls: ClassInfo, attr: str, accessing_class):
        p = self.p
        m = p.lookup_method(cls, attr, accessing_class)
        if m is not None:
            if m.is_property:
                return self.return_type(m)
            return FuncT(m, bound=True)
        key = mangle(attr, accessing_class.name if accessing_class else None)
        # class-level annotations (dataclass fields, declared attributes)
        for c in p.mro(cls):
            for f in c.fields:
                if f.name == key:
                    t = self.ann_to_type(c.module, f.annotation)
                    if t is not UNKNOWN:
                        return t
        # assignments self.attr = <expr> in any method of the MRO (constructor first)
        for c in p.mro(cls):
            methods = sorted(c.methods.values(), key=lambda f: (f.name != "__init__", f.lineno))
            for meth in methods:
                sn = meth.self_name
                if not sn:
                    continue
                for node in _iter_own_nodes(meth.node):
                    if isinstance(node, ast.Assign):
                        for tg in node.targets:
                            if isinstance(tg, ast.Attribute) and isinstance(tg.value, ast.Name) \
                                    and tg.value.id == sn and mangle(tg.attr, c.name) == key:
                                t = self.type_of(meth, node.value)
                                if t is not UNKNOWN:
                                    return t
                    elif isinstance(node, ast.AnnAssign):
                        tg = node.target
                        if isinstance(tg, ast.Attribute) and isinstance(tg.value, ast.Name) \
                                and tg.value.id == sn and mangle(tg.attr, c.name) == key:
                            t = self.ann_to_type(meth.module, node.annotation)
                            if t is not UNKNOWN:
                                return t
        return UNKNOWN

    def _call_type(self, fn, call: ast.Call, env):
        p = self.p
        f = call.func
        if isinstance(f, ast.Name) and f.id == "super" and not call.args:
            return Ext("super")
        if isinstance(f, ast.Attribute) and isinstance(f.value, ast.Call) and \
                isinstance(f.value.func, ast.Name) and f.value.func.id == "super":
            m = self._super_method(fn, f.attr)
            return self.return_type(m) if m else UNKNOWN
        ft = self.type_of(fn, f, env)
        if isinstance(ft, ClsT):
            return Inst(ft.cls)
        if isinstance(ft, FuncT):
            return self.return_type(ft.fn)
        if isinstance(ft, Ext):
            name = ft.name
            short = name.split(".")[-1]
            if name.startswith("builtins."):
                if short in ("list", "sorted", "reversed", "set", "tuple", "iter", "filter", "frozenset"):
                    if call.args:
                        a = self.type_of(fn, call.args[-1] if short == "filter" else call.args[0], env)
                        if isinstance(a, ListOf):
                            return a
                        if isinstance(a, TupleOf):
                            return ListOf(a.elems[0] if a.elems else UNKNOWN)
                    return ListOf(UNKNOWN)
                if short in ("next", "min", "max"):
                    if call.args:
                        return self._elem_type(self.type_of(fn, call.args[0], env))
                    return UNKNOWN
                if short == "enumerate" and call.args:
                    return ListOf(TupleOf((Ext("int"), self._elem_type(self.type_of(fn, call.args[0], env)))))
                if short == "zip":
                    return ListOf(TupleOf(tuple(self._elem_type(self.type_of(fn, a, env)) for a in call.args
                                                if not isinstance(a, ast.Starred))))
                if short == "map" and len(call.args) >= 2:
                    cal = self.type_of(fn, call.args[0], env)
                    if isinstance(cal, FuncT):
                        return ListOf(self.return_type(cal.fn))
                    if isinstance(cal, ClsT):
                        return ListOf(Inst(cal.cls))
                    return ListOf(UNKNOWN)
                if short in _BUILTIN_SCALARS or short in ("len", "abs", "sum", "round"):
                    return Ext("int" if short in ("len",) else short)
                if short == "open":
                    return Ext("TextIO")
                return UNKNOWN
            if short == "groupby" and call.args:
                a = self.type_of(fn, call.args[0], env)
                return ListOf(TupleOf((UNKNOWN, a if isinstance(a, ListOf) else ListOf(UNKNOWN))))
            if short in ("dropwhile", "takewhile") and len(call.args) == 2:
                return self.type_of(fn, call.args[1], env)
            if short in ("chain",) and call.args:
                return self.type_of(fn, call.args[0], env)
            if name.endswith("chain.from_iterable") and call.args:
                a = self.type_of(fn, call.args[0], env)
                return a.elem if isinstance(a, ListOf) and isinstance(a.elem, ListOf) else ListOf(UNKNOWN)
            if short in ("p_imap", "p_map", "p_umap", "p_uimap") and call.args:
                cal = self.type_of(fn, call.args[0], env)
                if isinstance(cal, FuncT):
                    return ListOf(self.return_type(cal.fn))
                return ListOf(UNKNOWN)
            if name.startswith("list."):
                return UNKNOWN
            return Ext(name + "()")
        return UNKNOWN

    def _super_method(self, fn: FunctionInfo, name: str) -> Optional[FunctionInfo]:
        cls = fn.enclosing_class
        if cls is None:
            return None
        mro = self.p.mro(cls)
        key = mangle(name, cls.name)
        for c in mro[1:]:
            if key in c.methods:
                return c.methods[key]
        return None

    # ---------------------------------------------------------------- return types
    def return_type(self, fn: FunctionInfo):
        q = fn.qualname
        if q in self._ret_cache:
            return self._ret_cache[q]
        if q in self._ret_stack:
            return UNKNOWN
        self._ret_stack.append(q)
        try:
            t = UNKNOWN
            node = fn.node
            if isinstance(node, ast.Lambda):
                t = self.type_of(fn, node.body)
            else:
                if node.returns is not None:
                    t = self.ann_to_type(fn.module, node.returns)
                if t is UNKNOWN:
                    is_gen = False
                    yts = []
                    rts = []
                    for n in _iter_own_nodes(node):
                        if isinstance(n, (ast.Yield, ast.YieldFrom)):
                            is_gen = True
                            if isinstance(n, ast.Yield) and n.value is not None:
                                yts.append(self.type_of(fn, n.value))
                        elif isinstance(n, ast.Return) and n.value is not None:
                            rts.append(self.type_of(fn, n.value))
                    if is_gen:
                        yts = [x for x in yts if x is not UNKNOWN]
                        t = ListOf(yts[0] if yts else UNKNOWN)
                    else:
                        rts = [x for x in rts if x is not UNKNOWN]
                        for r in rts:
                            t = _join(t, r)
        finally:
            self._ret_stack.pop()
        self._ret_cache[q] = t
        return t


def _join(a, b):
    if a is UNKNOWN:
        return b
    if b is UNKNOWN:
        return a
    if isinstance(a, Inst) and isinstance(b, Inst) and a.cls != b.cls:
        # nearest common repository base class (dynamic dispatch then covers both)
        anc_a = [a.cls] + _bases(a.cls)
        anc_b = [b.cls] + _bases(b.cls)
        for c in anc_a:
            if c in anc_b:
                return Inst(c)
    if isinstance(a, ListOf) and isinstance(b, ListOf):
        return ListOf(_join(a.elem, b.elem))
    return a


def _bases(c: ClassInfo):
    out = []
    for b in c.bases:
        out.append(b)
        out.extend(_bases(b))
    return out


def _is_none_ann(e):
    return isinstance(e, ast.Constant) and e.value is None


def _dotted(e) -> str:
    if isinstance(e, ast.Name):
        return e.id
    if isinstance(e, ast.Attribute):
        b = _dotted(e.value)
        return f"{b}.{e.attr}" if b else ""
    return ""


def _iter_own_nodes(fnode):
    """All nodes of a function body, not descending into nested defs/classes (lambdas are descended)."""
    stack = list(ast.iter_child_nodes(fnode))
    while stack:
        n = stack.pop()
        yield n
        if isinstance(n, (ast.FunctionDef, ast.AsyncFunctionDef, ast.ClassDef)):
            continue
        stack.extend(ast.iter_child_nodes(n))


def _iter_own_statements(fnode):
    """Statements of a function in source order, not descending into nested defs."""
    def rec(body):
        for s in body:
            yield s
            if isinstance(s, (ast.FunctionDef, ast.AsyncFunctionDef, ast.ClassDef)):
                continue
            for fname, value in ast.iter_fields(s):
                if isinstance(value, list) and value and isinstance(value[0], ast.stmt):
                    yield from rec(value)
                elif isinstance(value, list):
                    for v in value:
                        if isinstance(v, ast.ExceptHandler):
                            yield from rec(v.body)
                        elif isinstance(v, ast.match_case):
                            yield from rec(v.body)
    body = fnode.body if not isinstance(fnode, ast.Lambda) else []
    yield from rec(body)


_BINOP_DUNDER = {ast.Sub: "__sub__", ast.Add: "__add__", ast.Mult: "__mul__"}

_BUILTINS = {
    "len", "abs", "min", "max", "sum", "sorted", "reversed", "list", "tuple", "set", "dict", "frozenset", "int", "float",
    "str", "bool", "range", "enumerate", "zip", "map", "filter", "next", "iter", "any", "all", "isinstance", "issubclass",
    "print", "open", "round", "repr", "hash", "id", "type", "vars", "getattr", "setattr", "hasattr", "super", "object",
    "ValueError", "Exception", "TypeError", "KeyError", "IndexError", "AttributeError", "StopIteration", "divmod", "pow",
    "callable", "format", "input", "ord", "chr", "bytes", "slice", "property", "staticmethod", "classmethod", "NotImplementedError",
    "RuntimeError", "AssertionError", "NotImplemented",
}

"""Static analysis of mikoar/coma: every verdict is computed from the source text of
the current /repo working tree (parsed with ``ast``); nothing from the repository is
imported or executed."""

"""CLI:  python -m sa.check <ID> [--tier quick|thorough] [--replay file]

exit 0  every rule instance of the property holds on /repo's working tree (KNOWN-FINDING lines allowed)
exit 1  a recognised construct deviates from its rule   (line  VIOLATION property=<id> replay=<path>)
exit 2  the analysis itself cannot give a verdict        (line  ANALYSIS-ERROR property=<id> ...)
"""
from __future__ import annotations

import argparse
import importlib
import json
import os
import sys
import time
import traceback

from .loader import AnalysisError
from .report import Checker, finish


_MODELLED_DECORATORS = {"staticmethod", "classmethod", "property", "abstractmethod", "abc.abstractmethod", "dataclass",
                        "dataclasses.dataclass", "overload", "typing.overload", "final", "typing.final",
                        # memoisation: the body is read as it stands, the key is judged by rules.effects.memoised_with_incomplete_key
                        "lru_cache", "functools.lru_cache", "cache", "functools.cache"}


def _guard_unmodelled_decorators(ck):
    """A decorator can replace what a function does (a wrapper, numpy.vectorize, cached_property, total_ordering, a registry).
    The pinned tree uses staticmethod / property / abstractmethod / dataclass only; those, classmethod, the typing markers and
    functools' memoisers are read for what they are. Any other decorator on a function or class of src/ or sv/ that the
    property's rules may read makes the analysis answer ANALYSIS-ERROR (exit 2) instead of judging a body that is not what runs."""
    p = ck.ctx.p
    bad = []
    for f in p.nontest_functions():
        if f.is_lambda or f.module.name.startswith(("src.diagnostic.alignment_plot", "src.diagnostic.plot")):
            continue
        for d in f.decorators:
            name = d.split("(")[0]
            if name in _MODELLED_DECORATORS or name.endswith((".setter", ".getter", ".deleter")):
                continue
            bad.append(f"{f.module.relpath}:{f.node.lineno} @{d[:60]} on {f.qualname.split(':')[-1]}")
    for c in p.classes.values():
        if c.module.is_test:
            continue
        for d in c.decorators:
            if d.split("(")[0] not in _MODELLED_DECORATORS:
                bad.append(f"{c.module.relpath}: @{d[:60]} on class {c.name}")
    if bad:
        raise AnalysisError("decorator(s) the analysis does not model (the decorated body may not be what runs): " + "; ".join(bad[:5]))


def main(argv=None) -> int:
    sys.setrecursionlimit(20000)         # terms are walked recursively; helpers read through several levels nest deeply
    ap = argparse.ArgumentParser()
    ap.add_argument("prop")
    ap.add_argument("--tier", default=os.environ.get("VERIF_TIER", "quick"))
    ap.add_argument("--replay", default=None)
    ap.add_argument("--no-selftest", action="store_true", help="thorough tier without the variant self-test")
    a = ap.parse_args(argv)
    prop = a.prop.upper()
    tier = a.tier if a.tier in ("quick", "thorough") else "quick"
    try:
        seed = int(os.environ.get("VERIF_SEED", "0"))
    except ValueError:
        seed = 0
    started = time.time()
    ck = Checker(None, prop, tier)
    try:
        from .norm import Ctx
        ctx = Ctx()
        ck.ctx = ctx
        if ctx.p.parse_errors:
            raise AnalysisError("files that do not parse: " + "; ".join(ctx.p.parse_errors))
        if a.replay:
            with open(a.replay) as f:
                ck.only_key = json.load(f)["key"]
        try:
            mod = importlib.import_module(f"sa.props.{prop.lower()}")
        except ModuleNotFoundError:
            raise AnalysisError(f"no checker for property {prop}")
        _guard_unmodelled_decorators(ck)
        mod.run(ck)
        if tier == "thorough":
            extra = getattr(mod, "run_thorough", None)
            if extra is not None:
                extra(ck)
            if not a.no_selftest and os.environ.get("SA_NO_SELFTEST") != "1" and ck.only_key is None:
                from .selftest.run import selftest_for
                selftest_for(ck, seed)
        return finish(ck, started, seed)
    except AnalysisError as e:
        return finish(ck, started, seed, error=str(e))
    except Exception as e:  # a crash of the checker is never a violation
        tb = traceback.format_exc(limit=6)
        sys.stderr.write(tb)
        return finish(ck, started, seed, error=f"internal error {type(e).__name__}: {e}")


if __name__ == "__main__":
    sys.exit(main())

"""CLI:  python -m sa.check <ID> [--tier quick|thorough] [--replay file]

exit 0  every rule instance of the property holds on /repo's working tree (KNOWN-FINDING lines allowed)
exit 1  a recognised construct deviates from its rule   (line  VIOLATION property=<id> replay=<path>)
exit 2  the analysis itself cannot give a verdict        (line  ANALYSIS-ERROR property=<id> ...)
"""
from __future__ import annotations

import argparse
import importlib
import json
import os
import sys
import time
import traceback

from .loader import AnalysisError
from .report import Checker, finish


def main(argv=None) -> int:
    ap = argparse.ArgumentParser()
    ap.add_argument("prop")
    ap.add_argument("--tier", default=os.environ.get("VERIF_TIER", "quick"))
    ap.add_argument("--replay", default=None)
    ap.add_argument("--no-selftest", action="store_true", help="thorough tier without the variant self-test")
    a = ap.parse_args(argv)
    prop = a.prop.upper()
    tier = a.tier if a.tier in ("quick", "thorough") else "quick"
    try:
        seed = int(os.environ.get("VERIF_SEED", "0"))
    except ValueError:
        seed = 0
    started = time.time()
    ck = Checker(None, prop, tier)
    try:
        from .norm import Ctx
        ctx = Ctx()
        ck.ctx = ctx
        if ctx.p.parse_errors:
            raise AnalysisError("files that do not parse: " + "; ".join(ctx.p.parse_errors))
        if a.replay:
            with open(a.replay) as f:
                ck.only_key = json.load(f)["key"]
        try:
            mod = importlib.import_module(f"sa.props.{prop.lower()}")
        except ModuleNotFoundError:
            raise AnalysisError(f"no checker for property {prop}")
        mod.run(ck)
        if tier == "thorough":
            extra = getattr(mod, "run_thorough", None)
            if extra is not None:
                extra(ck)
            if not a.no_selftest and os.environ.get("SA_NO_SELFTEST") != "1" and ck.only_key is None:
                from .selftest.run import selftest_for
                selftest_for(ck, seed)
        return finish(ck, started, seed)
    except AnalysisError as e:
        return finish(ck, started, seed, error=str(e))
    except Exception as e:  # a crash of the checker is never a violation
        tb = traceback.format_exc(limit=6)
        sys.stderr.write(tb)
        return finish(ck, started, seed, error=f"internal error {type(e).__name__}: {e}")


if __name__ == "__main__":
    sys.exit(main())

#!/venv/bin/python
"""Confirm a seeded change and run the checks against it.

  tools/verify_seeded.py <dir with patch.diff, demo.py, meta.json> [--repo-apply]

1. fresh scratch worktree of /repo HEAD under /tmp/vs; `git apply patch.diff`
2. the unedited test suite must still pass there (165 passed)
3. demo.py (COMA_ROOT=<worktree>, cwd=<worktree>) must FAIL with the change and PASS after `git checkout -- .`
4. every registered quick check is run against the changed tree (SA_REPO=<worktree>; with --repo-apply the patch is
   applied to /repo itself, the registered commands are run verbatim and the patch is undone straight afterwards)
The scratch worktree is removed at the end.  Prints one JSON object.
"""
import json
import os
import re
import shutil
import subprocess
import sys

PY = "/venv/bin/python"
VERIF = os.path.dirname(os.path.dirname(os.path.abspath(__file__)))


def sh(cmd, cwd=None, env=None, timeout=900):
    e = dict(os.environ)
    if env:
        e.update(env)
    p = subprocess.run(cmd, shell=True, cwd=cwd, env=e, capture_output=True, text=True, timeout=timeout)
    return p.returncode, (p.stdout + p.stderr)


def main():
    d = os.path.abspath(sys.argv[1])
    repo_apply = "--repo-apply" in sys.argv
    patch = os.path.join(d, "patch.diff")
    demo = os.path.join(d, "demo.py")
    name = re.sub(r"[^A-Za-z0-9]+", "_", d.strip("/"))[-40:]
    wt = f"/tmp/vs/{name}"
    os.makedirs("/tmp/vs", exist_ok=True)
    sh(f"git -C /repo worktree remove --force {wt}")
    shutil.rmtree(wt, ignore_errors=True)
    out = {"dir": d}
    rc, o = sh(f"git -C /repo worktree add -q --detach {wt} HEAD")
    if rc:
        out["error"] = "worktree: " + o[-300:]
        print(json.dumps(out, indent=1))
        return 2
    try:
        rc, o = sh(f"git apply {patch}", cwd=wt)
        out["patch_applies"] = rc == 0
        if rc:
            out["error"] = o[-400:]
            print(json.dumps(out, indent=1))
            return 2
        _, files = sh("git diff --stat", cwd=wt)
        out["diffstat"] = files.strip().splitlines()[-1] if files.strip() else ""
        rc, o = sh(f"{PY} -m pytest -q -p no:cacheprovider --timeout=900", cwd=wt)
        m = re.search(r"(\d+) passed", o)
        out["tests_passed"] = int(m.group(1)) if m else 0
        out["tests_ok"] = rc == 0 and out["tests_passed"] >= 165
        if not out["tests_ok"]:
            out["tests_tail"] = o[-600:]
        rc, o = sh(f"{PY} {demo}", cwd=wt, env={"COMA_ROOT": wt}, timeout=600)
        out["demo_with_change_rc"] = rc
        out["demo_with_change_tail"] = o[-400:]
        # checks against the changed tree
        manifest = json.load(open(os.path.join(VERIF, "MANIFEST.json")))
        results = {}
        if repo_apply:
            rc0, o0 = sh(f"git -C /repo apply {patch}")
            if rc0:
                out["error"] = "cannot apply to /repo: " + o0[-300:]
        try:
            for c in manifest["checks"]:
                env = {} if repo_apply else {"SA_REPO": wt}
                env["SA_NO_EVIDENCE"] = "1"
                rc, o = sh(c["quick_cmd"], cwd=VERIF, env=env)
                vio = [l for l in o.splitlines() if l.startswith("VIOLATION")]
                rules = sorted(set(re.findall(r"rule (C\d+\.[A-Za-z0-9]+)", o)))
                if rc != 0:
                    results[c["property_id"]] = {"rc": rc, "rules": rules,
                                                 "first": next((l for l in o.splitlines() if "rule C" in l or "ANALYSIS-ERROR" in l), "")[:400]}
        finally:
            if repo_apply:
                sh("git -C /repo checkout -- .")
        out["checks_firing"] = results
        sh("git checkout -- .", cwd=wt)
        rc, o = sh(f"{PY} {demo}", cwd=wt, env={"COMA_ROOT": wt}, timeout=600)
        out["demo_without_change_rc"] = rc
        if rc:
            out["demo_without_change_tail"] = o[-400:]
        out["confirmed"] = bool(out["tests_ok"] and out["demo_with_change_rc"] != 0 and out["demo_without_change_rc"] == 0)
    finally:
        sh(f"git -C /repo worktree remove --force {wt}")
        shutil.rmtree(wt, ignore_errors=True)
        sh("git -C /repo worktree prune")
    print(json.dumps(out, indent=1))
    return 0


if __name__ == "__main__":
    sys.exit(main())

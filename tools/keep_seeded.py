#!/venv/bin/python
"""Confirm a seeded change with the brief's procedure (apply to /repo, run the registered checks, undo) and keep it
under /verif/seeded/<name>/ (patch.diff, demo.py, meta.json).   tools/keep_seeded.py <src dir> <name>"""
import json, os, shutil, subprocess, sys
VERIF = os.path.dirname(os.path.dirname(os.path.abspath(__file__)))
src, name = sys.argv[1], sys.argv[2]
out = subprocess.run(["/venv/bin/python", os.path.join(VERIF, "tools/verify_seeded.py"), src, "--repo-apply"],
                     capture_output=True, text=True)
res = json.loads(out.stdout)
assert subprocess.run("git -C /repo status --short", shell=True, capture_output=True, text=True).stdout.strip() == "", "/repo not clean"
if not res.get("confirmed"):
    print("NOT CONFIRMED", name, res)
    sys.exit(1)
dst = os.path.join(VERIF, "seeded", name)
os.makedirs(dst, exist_ok=True)
shutil.copy(os.path.join(src, "patch.diff"), dst)
shutil.copy(os.path.join(src, "demo.py"), dst)
agent_meta = {}
try:
    agent_meta = json.load(open(os.path.join(src, "meta.json")))
except Exception:
    pass
prop = agent_meta.get("property") or name.split("-")[0]
firing = res.get("checks_firing", {})
meta = {
    "property": prop,
    "summary": agent_meta.get("summary", ""),
    "needs_to_manifest": agent_meta.get("needs_to_manifest", ""),
    "files": agent_meta.get("files", []),
    "origin": "independent sub-agent given only the property text and a scratch worktree",
    "confirmed_by": {
        "procedure": "fresh worktree of /repo HEAD: git apply patch.diff; /venv/bin/python -m pytest -q -p no:cacheprovider; "
                     "COMA_ROOT=<worktree> /venv/bin/python demo.py (must fail); git checkout -- .; demo.py again (must pass); then "
                     "git -C /repo apply patch.diff, every registered quick_cmd, git -C /repo checkout -- .",
        "tests_passed_with_change": res.get("tests_passed"),
        "demo_rc_with_change": res.get("demo_with_change_rc"),
        "demo_rc_without_change": res.get("demo_without_change_rc"),
        "demo_tail_with_change": res.get("demo_with_change_tail", "")[-300:],
    },
    "checks": {
        "own_property_detects": bool(firing.get(prop, {}).get("rc") == 1),
        "firing": {k: {"exit": v["rc"], "rules": v["rules"], "first_report": v["first"][:300]} for k, v in firing.items()},
    },
}
json.dump(meta, open(os.path.join(dst, "meta.json"), "w"), indent=1)
print(name, "kept; own property detects:", meta["checks"]["own_property_detects"], {k: v["rules"] or v["rc"] for k, v in firing.items()})

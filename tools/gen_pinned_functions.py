#!/venv/bin/python
"""Regenerate sa/pinned_functions.json from /repo (only when the pinned commit changes)."""
import json, os, sys
sys.path.insert(0, os.path.dirname(os.path.dirname(os.path.abspath(__file__))))
from sa.loader import Program
p = Program()
names = sorted(f.qualname for f in p.functions.values())
path = os.path.join(os.path.dirname(os.path.dirname(os.path.abspath(__file__))), "sa", "pinned_functions.json")
old = json.load(open(path))
old["functions"] = names
old["classes"] = sorted(c.qualname for c in p.classes.values())
from sa.features import features_of
old["features"] = {f.qualname: sorted(features_of(f.node)) for f in p.functions.values() if features_of(f.node)}
json.dump(old, open(path, "w"), indent=0)
print(len(names), "functions")

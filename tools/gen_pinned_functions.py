#!/venv/bin/python
"""Regenerate sa/pinned_functions.json from /repo (only when the pinned commit changes)."""
import json, os, sys
sys.path.insert(0, os.path.dirname(os.path.dirname(os.path.abspath(__file__))))
from sa.loader import Program
p = Program()
names = sorted(f.qualname for f in p.functions.values())
path = os.path.join(os.path.dirname(os.path.dirname(os.path.abspath(__file__))), "sa", "pinned_functions.json")
old = json.load(open(path))
old["functions"] = names
old["classes"] = sorted(c.qualname for c in p.classes.values())
from sa.features import features_of
old["features"] = {f.qualname: sorted(features_of(f.node)) for f in p.functions.values() if features_of(f.node)}
# the command-line interface of the pinned tree: option -> declared type / choices (a later narrowing of what an option accepts is
# judged against this: "for all parameter settings the option help allows")
import ast
opts = {}
args_mod = p.modules["src.args"]
for n in ast.walk(args_mod.tree):
    if isinstance(n, ast.Call) and isinstance(n.func, ast.Attribute) and n.func.attr == "add_argument":
        kw = {k.arg: k.value for k in n.keywords if k.arg}
        dest = kw["dest"].value if isinstance(kw.get("dest"), ast.Constant) else None
        if dest:
            opts[dest] = {"type": ast.unparse(kw["type"]) if "type" in kw else None,
                          "choices": ast.literal_eval(kw["choices"]) if "choices" in kw else None,
                          "nargs": ast.literal_eval(kw["nargs"]) if "nargs" in kw else None,
                          "action": ast.literal_eval(kw["action"]) if "action" in kw else None}
old["options"] = opts
json.dump(old, open(path, "w"), indent=0)
print(len(names), "functions")

#!/venv/bin/python
"""Systematic single-edit mutants of the anchored source files - a development tool that looks for blind spots of the checks.

    tools/mutate.py generate            -> /tmp/mut/mutants.jsonl  (one mutant per line: file, line, operator, description)
    tools/mutate.py check  [--jobs 16]  -> runs every property's checker on every mutant (in memory, loader overlay)
    tools/mutate.py tests  [--jobs 12]  -> runs the unedited test suite on every mutant NO check reported (scratch copies under /tmp)
    tools/mutate.py report              -> survivors of both (candidates for triage), by file / function / operator

Nothing here is registered in MANIFEST.json; results live under /tmp/mut and are scratch material.
"""
from __future__ import annotations

import ast
import copy
import json
import os
import shutil
import subprocess
import sys
import time
from concurrent.futures import ProcessPoolExecutor

VERIF = os.path.dirname(os.path.dirname(os.path.abspath(__file__)))
sys.path.insert(0, VERIF)
OUT = "/tmp/mut"
PROPS = ["C01", "C02", "C03", "C04", "C05", "C07", "C08", "C09", "C10", "C11", "C12", "C13", "C14", "C15", "C16", "C17",
         "C18", "C19", "C20"]

ROLE_SWAPS = [("reference", "query"), ("Reference", "Query"), ("start", "end"), ("Start", "End"), ("first", "last"),
              ("First", "Last"), ("left", "right"), ("Left", "Right"), ("min", "max"), ("1", "2")]


def repo_root():
    return os.environ.get("SA_REPO", "/repo")


def anchored_files():
    files = set()
    for line in open(os.path.join(VERIF, "properties.jsonl")):
        p = json.loads(line)
        for f in p["anchors"]["files"]:
            if f.endswith(".py") and os.path.exists(os.path.join(repo_root(), f)):
                files.add(f)
    return sorted(files)


class Mutator:
    """enumerates single-node edits of one module"""

    def __init__(self, rel, src):
        self.rel = rel
        self.src = src
        self.tree = ast.parse(src)
        self.out = []

    def emit(self, node, op, desc, new_tree):
        try:
            text = ast.unparse(new_tree)
            compile(text, self.rel, "exec")
        except Exception:
            return
        fn = self._enclosing(node)
        self.out.append({"file": self.rel, "line": getattr(node, "lineno", 0), "function": fn, "op": op, "desc": desc,
                         "text": text})

    def _enclosing(self, node):
        best = None
        for n in ast.walk(self.tree):
            if isinstance(n, (ast.FunctionDef, ast.AsyncFunctionDef)) and n.lineno <= getattr(node, "lineno", 0) <= (n.end_lineno or 0):
                if best is None or n.lineno >= best.lineno:
                    best = n
        return best.name if best else "<module>"

    def _replace(self, target, make_new):
        """deep copy of the tree with the node corresponding to `target` replaced by make_new(copy of target)"""
        idx = None
        for i, n in enumerate(ast.walk(self.tree)):
            if n is target:
                idx = i
                break
        new = copy.deepcopy(self.tree)
        for i, n in enumerate(ast.walk(new)):
            if i == idx:
                make_new(n)
                break
        ast.fix_missing_locations(new)
        return new

    def run(self):
        cmp_swaps = {ast.Lt: ast.LtE, ast.LtE: ast.Lt, ast.Gt: ast.GtE, ast.GtE: ast.Gt, ast.Eq: ast.NotEq, ast.NotEq: ast.Eq,
                     ast.In: ast.NotIn, ast.NotIn: ast.In, ast.Is: ast.IsNot, ast.IsNot: ast.Is}
        flips = {ast.Lt: ast.Gt, ast.Gt: ast.Lt, ast.LtE: ast.GtE, ast.GtE: ast.LtE}
        for node in ast.walk(self.tree):
            if isinstance(node, (ast.FunctionDef, ast.AsyncFunctionDef)) and node.name in ("__repr__", "__str__"):
                continue
            if isinstance(node, ast.Compare) and len(node.ops) == 1:
                t = type(node.ops[0])
                if t in cmp_swaps:
                    self.emit(node, "cmp-boundary", f"{ast.unparse(node)}: {t.__name__} -> {cmp_swaps[t].__name__}",
                              self._replace(node, lambda n, t=t: n.ops.__setitem__(0, cmp_swaps[t]())))
                if t in flips:
                    self.emit(node, "cmp-flip", f"{ast.unparse(node)}: {t.__name__} -> {flips[t].__name__}",
                              self._replace(node, lambda n, t=t: n.ops.__setitem__(0, flips[t]())))
            if isinstance(node, ast.BinOp) and isinstance(node.op, (ast.Add, ast.Sub)):
                other = ast.Sub if isinstance(node.op, ast.Add) else ast.Add
                self.emit(node, "arith-sign", f"{ast.unparse(node)}: {'+' if other is ast.Sub else '-'} -> {'-' if other is ast.Sub else '+'}",
                          self._replace(node, lambda n, other=other: setattr(n, "op", other())))
            if isinstance(node, ast.Constant) and isinstance(node.value, bool):
                self.emit(node, "bool-const", f"{node.value} -> {not node.value}",
                          self._replace(node, lambda n: setattr(n, "value", not n.value)))
            elif isinstance(node, ast.Constant) and isinstance(node.value, int) and abs(node.value) <= 10:
                for d in (1, -1):
                    self.emit(node, "int-const", f"{node.value} -> {node.value + d}",
                              self._replace(node, lambda n, d=d: setattr(n, "value", n.value + d)))
            if isinstance(node, ast.UnaryOp) and isinstance(node.op, ast.Not):
                self.emit(node, "drop-not", f"{ast.unparse(node)} -> {ast.unparse(node.operand)}",
                          self._replace(node, lambda n: (setattr(n, "op", ast.UAdd()) if False else None) or self._drop_not(n)))
            if isinstance(node, ast.If):
                self.emit(node, "negate-if", f"if {ast.unparse(node.test)[:60]} -> negated",
                          self._replace(node, lambda n: setattr(n, "test", ast.UnaryOp(op=ast.Not(), operand=n.test))))
            if isinstance(node, ast.IfExp):
                self.emit(node, "swap-ifexp", f"{ast.unparse(node)[:70]}: branches exchanged",
                          self._replace(node, lambda n: (lambda b, o: (setattr(n, "body", o), setattr(n, "orelse", b)))(n.body, n.orelse)))
            if isinstance(node, ast.BoolOp):
                other = ast.Or if isinstance(node.op, ast.And) else ast.And
                self.emit(node, "and-or", f"{ast.unparse(node)[:70]}: {type(node.op).__name__} -> {other.__name__}",
                          self._replace(node, lambda n, other=other: setattr(n, "op", other())))
                if len(node.values) >= 2:
                    for k in range(len(node.values)):
                        self.emit(node, "drop-conjunct", f"{ast.unparse(node)[:70]}: operand #{k} dropped",
                                  self._replace(node, lambda n, k=k: n.values.pop(k)))
            if isinstance(node, ast.Call):
                pos = [a for a in node.args if not isinstance(a, ast.Starred)]
                if len(pos) >= 2 and len(pos) == len(node.args):
                    for i in range(len(pos) - 1):
                        if ast.dump(pos[i]) != ast.dump(pos[i + 1]):
                            self.emit(node, "swap-args", f"{ast.unparse(node)[:80]}: arguments {i},{i + 1} exchanged",
                                      self._replace(node, lambda n, i=i: n.args.__setitem__(slice(i, i + 2), [n.args[i + 1], n.args[i]])))
                if isinstance(node.func, ast.Name) and node.func.id in ("min", "max"):
                    new = "max" if node.func.id == "min" else "min"
                    self.emit(node, "min-max", f"{ast.unparse(node)[:70]}: {node.func.id} -> {new}",
                              self._replace(node, lambda n, new=new: setattr(n.func, "id", new)))
                for kw in node.keywords:
                    if kw.arg == "reverse" and isinstance(kw.value, ast.Constant):
                        pass    # covered by bool-const
            if isinstance(node, ast.Subscript) and isinstance(node.slice, ast.Constant) and node.slice.value in (0, -1):
                new = -1 if node.slice.value == 0 else 0
                self.emit(node, "first-last", f"{ast.unparse(node)[:60]}: [{node.slice.value}] -> [{new}]",
                          self._replace(node, lambda n, new=new: setattr(n.slice, "value", new)))
            if isinstance(node, ast.Subscript) and isinstance(node.slice, ast.Slice):
                if node.slice.lower is None and node.slice.upper is not None and node.slice.step is None:
                    self.emit(node, "slice-side", f"{ast.unparse(node)[:60]}: [:b] -> [b:]",
                              self._replace(node, lambda n: (setattr(n.slice, "lower", n.slice.upper), setattr(n.slice, "upper", None))))
                elif node.slice.upper is None and node.slice.lower is not None and node.slice.step is None:
                    self.emit(node, "slice-side", f"{ast.unparse(node)[:60]}: [a:] -> [:a]",
                              self._replace(node, lambda n: (setattr(n.slice, "upper", n.slice.lower), setattr(n.slice, "lower", None))))
            if isinstance(node, ast.Attribute):
                for a, b in ROLE_SWAPS:
                    for x, y in ((a, b), (b, a)):
                        if x in node.attr and x not in ("1", "2"):
                            newname = node.attr.replace(x, y, 1)
                            if newname != node.attr and self._attr_exists(newname):
                                self.emit(node, "role-attr", f"{ast.unparse(node)[:70]} -> .{newname}",
                                          self._replace(node, lambda n, newname=newname: setattr(n, "attr", newname)))
                            break
            if isinstance(node, ast.Name) and isinstance(node.ctx, ast.Load):
                for a, b in ROLE_SWAPS:
                    for x, y in ((a, b), (b, a)):
                        if x in node.id and len(x) > 1:
                            newname = node.id.replace(x, y, 1)
                            if newname != node.id and self._name_bound_near(node, newname):
                                self.emit(node, "role-name", f"{node.id} -> {newname} (line {node.lineno})",
                                          self._replace(node, lambda n, newname=newname: setattr(n, "id", newname)))
                            break
        # statement deletions
        for parent in ast.walk(self.tree):
            for field in ("body", "orelse"):
                blk = getattr(parent, field, None)
                if not isinstance(blk, list) or len(blk) < 2:
                    continue
                for k, st in enumerate(blk):
                    if isinstance(st, (ast.Expr, ast.Assign, ast.AugAssign, ast.Continue, ast.Break)) and not (
                            isinstance(st, ast.Expr) and isinstance(st.value, ast.Constant)):
                        self.emit(st, "del-stmt", f"deleted: {ast.unparse(st)[:80]}", self._delete(parent, field, k))
        return self.out

    def _drop_not(self, n):
        # in-place: turn `not X` into X by copying X's fields over (UnaryOp -> wrap in a no-op)
        n.op = ast.Not()
        inner = n.operand
        n.operand = ast.UnaryOp(op=ast.Not(), operand=inner)     # not not X  ==  bool(X)

    def _delete(self, parent, field, k):
        idx = None
        for i, n in enumerate(ast.walk(self.tree)):
            if n is parent:
                idx = i
                break
        new = copy.deepcopy(self.tree)
        for i, n in enumerate(ast.walk(new)):
            if i == idx:
                getattr(n, field).pop(k)
                break
        ast.fix_missing_locations(new)
        return new

    def _attr_exists(self, name):
        return ("." + name) in self.src or ("self." + name) in self.src

    def _name_bound_near(self, node, name):
        fn = None
        for n in ast.walk(self.tree):
            if isinstance(n, (ast.FunctionDef, ast.Lambda)) and getattr(n, "lineno", 0) <= node.lineno <= (getattr(n, "end_lineno", 0) or 0):
                if fn is None or n.lineno >= fn.lineno:
                    fn = n
        if fn is None:
            return False
        for n in ast.walk(fn):
            if isinstance(n, ast.Name) and n.id == name:
                return True
            if isinstance(n, ast.arg) and n.arg == name:
                return True
        return False


def generate():
    os.makedirs(OUT, exist_ok=True)
    n = 0
    with open(os.path.join(OUT, "mutants.jsonl"), "w") as f:
        for rel in anchored_files():
            src = open(os.path.join(repo_root(), rel), encoding="utf-8").read()
            seen = set()
            for m in Mutator(rel, src).run():
                key = (m["text"])
                if key in seen or m["text"] == ast.unparse(ast.parse(src)):
                    continue
                seen.add(key)
                m["id"] = n
                n += 1
                f.write(json.dumps(m) + "\n")
    print(n, "mutants ->", os.path.join(OUT, "mutants.jsonl"))


def _check_one(m):
    import importlib
    from sa.norm import Ctx
    from sa.report import Checker, unlisted_violations, untrusted_violations
    from sa.loader import AnalysisError
    res = {}
    try:
        ctx = Ctx(overlay={m["file"]: m["text"]})
    except Exception as e:
        return m["id"], {"*": f"load-error {e}"}
    for prop in PROPS:
        ck = Checker(ctx, prop, "quick")
        mod = importlib.import_module(f"sa.props.{prop.lower()}")
        try:
            mod.run(ck)
            vio = unlisted_violations(ck)          # listed known findings of the tree are not what a mutant is about
            if vio:
                res[prop] = "V:" + ",".join(sorted({o.rule for o in vio}))
            elif untrusted_violations(ck):
                res[prop] = "E"
        except AnalysisError as e:
            vio = unlisted_violations(ck)
            res[prop] = ("V:" + ",".join(sorted({o.rule for o in vio}))) if vio else "E"
        except Exception as e:
            res[prop] = f"X:{type(e).__name__}"
    return m["id"], res


def check(jobs):
    ms = [json.loads(l) for l in open(os.path.join(OUT, "mutants.jsonl"))]
    t0 = time.time()
    out = {}
    with ProcessPoolExecutor(max_workers=jobs) as ex:
        for k, (mid, res) in enumerate(ex.map(_check_one, ms, chunksize=4)):
            out[mid] = res
            if k % 200 == 0:
                print(k, "/", len(ms), f"{time.time() - t0:.0f}s", flush=True)
    json.dump(out, open(os.path.join(OUT, "check.json"), "w"))
    det = sum(1 for r in out.values() if any(v.startswith("V") for v in r.values()))
    err = sum(1 for r in out.values() if not any(v.startswith("V") for v in r.values()) and any(v == "E" for v in r.values()))
    crash = sum(1 for r in out.values() if any(v.startswith("X") or v.startswith("load") for v in r.values()))
    print(f"{len(ms)} mutants: {det} reported as VIOLATION, {err} only ANALYSIS-ERROR, {crash} crashed a checker, "
          f"{len(ms) - det - err} silent; {time.time() - t0:.0f}s")


def recheck(jobs):
    """re-run the checkers on the survivors of checks and tests only (after the checks were strengthened)"""
    ms = {json.loads(l)["id"]: json.loads(l) for l in open(os.path.join(OUT, "mutants.jsonl"))}
    chk = json.load(open(os.path.join(OUT, "check.json")))
    tst = json.load(open(os.path.join(OUT, "tests.json")))
    todo = [ms[int(k)] for k, passed in tst.items() if passed and not any(v.startswith("V") for v in chk[k].values())]
    t0 = time.time()
    n_new = 0
    with ProcessPoolExecutor(max_workers=jobs) as ex:
        for k, (mid, res) in enumerate(ex.map(_check_one, todo, chunksize=4)):
            chk[str(mid)] = res
            if any(v.startswith("V") for v in res.values()):
                n_new += 1
    json.dump(chk, open(os.path.join(OUT, "check.json"), "w"))
    print(f"{len(todo)} survivors re-checked: {n_new} now reported as VIOLATION; {time.time() - t0:.0f}s")


def _test_one(args):
    m, base = args
    d = f"/tmp/mut/w{os.getpid()}"
    if not os.path.exists(d):
        shutil.copytree(base, d, ignore=shutil.ignore_patterns(".git", "__pycache__", "data", "*.pyc"))
    path = os.path.join(d, m["file"])
    orig = open(path, encoding="utf-8").read()
    try:
        open(path, "w", encoding="utf-8").write(m["text"])
        p = subprocess.run(["/venv/bin/python", "-m", "pytest", "-q", "-x", "-p", "no:cacheprovider", "--timeout=120"], cwd=d,
                           capture_output=True, text=True, timeout=600)
        return m["id"], p.returncode == 0
    except Exception:
        return m["id"], False
    finally:
        open(path, "w", encoding="utf-8").write(orig)


def tests(jobs):
    ms = {json.loads(l)["id"]: json.loads(l) for l in open(os.path.join(OUT, "mutants.jsonl"))}
    chk = json.load(open(os.path.join(OUT, "check.json")))
    todo = [ms[int(k)] for k, r in chk.items() if not any(v.startswith("V") for v in r.values())]
    print(len(todo), "mutants not reported by any check -> running the test suite on them")
    out = {}
    t0 = time.time()
    with ProcessPoolExecutor(max_workers=jobs) as ex:
        for k, (mid, passed) in enumerate(ex.map(_test_one, [(m, repo_root()) for m in todo], chunksize=2)):
            out[mid] = passed
            if k % 100 == 0:
                print(k, "/", len(todo), f"{time.time() - t0:.0f}s", flush=True)
    json.dump(out, open(os.path.join(OUT, "tests.json"), "w"))
    for d in os.listdir("/tmp/mut"):
        if d.startswith("w") and os.path.isdir(os.path.join("/tmp/mut", d)):
            shutil.rmtree(os.path.join("/tmp/mut", d), ignore_errors=True)
    print(sum(1 for v in out.values() if v), "of", len(out), "survive the test suite as well")


def report():
    ms = {json.loads(l)["id"]: json.loads(l) for l in open(os.path.join(OUT, "mutants.jsonl"))}
    chk = json.load(open(os.path.join(OUT, "check.json")))
    tst = json.load(open(os.path.join(OUT, "tests.json"))) if os.path.exists(os.path.join(OUT, "tests.json")) else {}
    rows = []
    for k, passed in tst.items():
        if passed:
            m = ms[int(k)]
            rows.append((m["file"], m["function"], m["line"], m["op"], m["desc"], chk[k]))
    rows.sort()
    for r in rows:
        print(f"{r[0]}:{r[2]} {r[1]} [{r[3]}] {r[4]}  {r[5] or ''}")
    print(len(rows), "survivors of checks and tests")


if __name__ == "__main__":
    cmd = sys.argv[1] if len(sys.argv) > 1 else "generate"
    jobs = int(sys.argv[sys.argv.index("--jobs") + 1]) if "--jobs" in sys.argv else 12
    {"generate": generate, "check": lambda: check(jobs), "tests": lambda: tests(jobs), "report": report, "recheck": lambda: recheck(jobs)}[cmd]()

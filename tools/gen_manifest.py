#!/venv/bin/python
"""Regenerates /verif/MANIFEST.json from the table below (kept in one place so the file is always schema-valid).
Run:  /venv/bin/python tools/gen_manifest.py
"""
import json
import os

VERIF = os.path.dirname(os.path.dirname(os.path.abspath(__file__)))

COMMON_NOTE = ("Trusted base: CPython's ast module and the sa/ engine (loader with loop/iterator desugaring, annotation-driven type "
               "inference, call graph, term normaliser with the canonical forms of DESIGN.md 2.7, bounded path explorer). Decides the named structural clauses - necessary conditions of the "
               "property, for all inputs - not the run-time behaviour itself; what is declined is listed in DESIGN.md. ")

CHECKS = {
    "C01": dict(
        text="Static flow/path rules: the parallel map's rows are filtered on the truthiness of alignedPairs and every row list "
             "written in any mode derives only from that filtered result; Aligner.align sends the segments of all peaks "
             "through the injected AlignmentSegmentConflictResolver(SegmentChainer(SequentialityScorer)); the resolver "
             "walks {(i,i+1)} over the whole chain and writes both results back to their own slots; per-peak "
             "de-duplication is one-per-key by query label and by reference label keeping the minimum distance. Added after the seeded rounds: second-pass label numbers refer to the whole query; overlapping segments are cut at indices from their own index tables and the conflict test sees every overlap (as C15.5/C15.6); records are joined only with equal orientation and reference (as C08.4). Round 3: the chainer refuses pairs overlapping by more than half (as C14.2). Round 4: a joined record is made only of segments resolved against each other (C01.10); the cut axis of conflict resolution follows the two peak positions and never the strand. Round 5: what is trimmed comes from the own sub-run (C01.11). Round 6: the conflicting sub-run handed to the trim reaches the end of the overlap whatever unpaired labels lie in it, and the label tables the cut is counted in hold every label of their side - pairs and the unpaired labels wrapped in ScoredNotAlignedPosition (C01.12, C01.13, as C15.4 / C15.8). Round 7: a memo in the alignment chain is keyed by every input of what it remembers (C01.14). Round 8: the pairwise pass has no exit that depends on what a segment looks like and its index generator is not a stride-2 zip; a one-per-key selection written as a filter on the smallest distance (all ties kept) is reported; label-table indexes are list indexes (as C15.8); the chainer returns un-chained segments only when at most one is non-empty (C01.15, as C14.4). Round 9: ids and lengths reach AlignmentResultRow.create in the parameters of their own role at every call site (C01.16); the overlap test has no path that answers 'no overlap' without comparing the later start with the earlier end. Round 10: records are frozen also through a local alias of their list (C01.17); the scorer returns one scored position per position (C01.18); a chain member emptied by a resolution does not shield its neighbours (C01.19: violated by the pinned code, listed as known finding K2 - KNOWN-FINDING line, exit 0). Round 11: a joined record is handed back only under a test of its neighbouring pairs on both sequences (C01.20; fix F12). Round 12: the collinearity test has to be implied by the condition under which the joined record is handed back, and the tested record is the returned one (C01.20).",
        note="That the final matching is one-to-one and collinear for every geometry is declined (value-level; the property "
             "text itself records fuzzing counter-examples); two constructs are reported as observations only.",
        tech="static analysis: source->sanitiser->sink flow per mode (R-FLOW), path/term rules on the resolver loop (R-PATH/R-TERM), typed constructor chain (R-TABLE)",
        ref="DESIGN.md section 4 C01"),
    "C02": dict(
        text="Static table/term rules: XMAP header names, record keys and reader columns agree position by position; each column is "
             "written from the attribute the reader stores; column-name/attribute roles agree; XmapEntryID is 1..n; "
             "AlignmentResultRow.create takes ref start/end from the first/last pair of the ascending pair list and exchanges "
             "query start/end on the reverse strand; second-pass fragments keep id, full length and the label offset of what "
             "was cut; label numbering honours shift on both strands with coordinates mirrored about length-1. Also: coordinates reach the records at full precision and follow the trim formulae (as C17.5/C17.6). Round 4: lengths come from the molecule's own end-marker row (C02.8, as C17.2); joins only on the same reference and strand (C02.9, as C08.4); second-pass fragments are aligned as cut (C02.4). Round 5: records are built by AlignmentResultRow.create only (C02.10). Round 6: a record is not altered after its header was derived - no store into segments / alignedPairs or a header field outside a constructor (C02.11); the Orientation column is the strand flag, not a comparison of coordinates. Round 7: a joined record carries the strand of its parts (C02.12); a memoised trim is keyed by the label list. Round 8: the frame is not sorted, sampled or reduced between the setting of its 1..n index and to_csv (C02.2); records are frozen for the diagnostics too (the plotters run inside the worker, on the row that is written later); no row of the CMAP table is dropped, repeated or merged while reading (C02.13, as C17.9). Round 9: Aligner.align hands the maps' own ids and lengths to the record (C02.14); a class with custom pickling carries every constructor field (C02.15). Round 10: a record's list changed in place through a local that is the list itself is reported (C02.11). Round 11: the coordinator that serves both passes hands each molecule to its worker as it received it (C02.4). Round 12: a joined record is handed back only if it is collinear (C02.16, as C01.20).",
        note="Numerical agreement of written values with the CMAP text is declined.",
        tech="static analysis: table agreement (R-TABLE), term normal forms under strand facts (R-TERM), argument/role lint (R-ROLE)",
        ref="DESIGN.md section 4 C02"),
    "C03": dict(
        text="Static path rule: for a non-empty operation list every syntactic path through the run-length aggregator emits at "
             "least one run (loops unrolled 0/1/2 with a nullness/emptiness store), the operation walk covers first..last "
             "reference label inclusive, and '' is returned only for a record without pairs. Also: one walk over all pairs of the record, insertion run = |difference of query label numbers| - 1 on both strands, the HitEnum cell written for a record is that record's own string, records are joined only within one strand and reference. Round 3: a joined record holds only the two resolved segments and the resolver's pairwise pass (as C08.6/C01.3); the first run starts at hits[0]. Round 4: sub-runs cut per own index table (C03.9); second-pass fragments aligned as cut, one label numbering per joined record (C03.10). Round 5: positions ordered by coordinate (C03.11); de-duplication groups over a sort by the same key (C03.12). Round 6: the label tables of conflict resolution hold every label of their side (C03.13, as C15.8). Round 7: fragment label numbers count from the whole query on both strands (C03.14, as C02.5). Round 8: a record is not altered after its header was derived, by the plotters either (C03.15, as C02.11); only neighbours in a chain can overlap (C03.16, as C14.2). Round 9: the conflict test sees every overlap of neighbouring chain members (C03.17, as C15.6). Round 10: fragment offsets count labels, they are not looked up by coordinate (C03.18, as C02.4). Round 11: records are copied only through AlignmentResultRow.create - a raw copy loses the strand (C03.19). Round 12: C03.20 (as C01.20); the conflicting sub-run of a segment runs over unpaired labels up to the first pair beyond the window (C03.21, as C15.4).",
        note="Assumes HitEnum members are truthy. Replay-equivalence of HitEnum and the pairs is declined.",
        tech="static analysis: path enumeration with emptiness/nullness store (R-PATH) + term normal forms",
        ref="DESIGN.md section 4 C03"),
    "C04": dict(
        text="Static wiring/ownership rules: argparse dests and Args fields are in bijection; in the factory every component "
             "parameter is bound to the best-matching self.args field (no literal, no exchanged or foreign field), generators "
             "are used per pass; AlignmentSegment/ScoredAlignedPair/ScoredNotAlignedPosition/AlignmentResultRow raw "
             "constructors are called only by their factories, segment score = sum over exactly the stored positions, no "
             "store to positions/segmentScore outside constructors and no in-place mutation after construction; row "
             "confidence = sum of the stored segments' scores; pair score formula; per-peak pipeline uses that peak's diagonal. Also: every label of the window is scored exactly once (unpaired = complement of the kept pairs, as C12.3) and overlap labels are scored in one segment only (pairwise pass, as C01.3). Round 3: de-duplication over pairs sorted by the grouping key (as C12.5). Round 4: joined record made of resolved segments only (C04.9); sub-runs cut per own index table (C04.10). Round 5: option values reach the components unchanged (C04.1 :altered); slice window (C04.11). Round 6: label tables complete (C04.12, as C15.8). Round 7: a wired component stores its configured parameter unchanged (no `p or DEFAULT`, abs, max); fragment numbering (C04.13). Round 8: the Confidence cell is written with at least two decimals (C04.14); what a Peak stores is the score / position it was given (as C16.8). Round 9: conflict resolution removes exactly the positions it is told to (C04.15); joins only on one reference and strand (C04.16); lengths reach the record unconverted (C04.17). Round 10: the scorer is total (C04.18); no join skips the overlap guard (C04.19); the maps hold every label (C04.20); no configurable parameter is left to a default in the factory or at a coordinator call site. Round 11: second-pass fragments reach the aligner as they were cut (C04.21, as C02.4). Round 12: the positions handed to the segments factory are computed from the peak they are handed over with (C04.22).",
        note="The numerical identity Confidence = sum(...) recomputed from raw maps and |offset| <= maxPairDistance are declined.",
        tech="static analysis: who-may-construct / who-may-write (R-EFFECT), best-name-match wiring (R-TABLE/R-ROLE), term normal forms",
        ref="DESIGN.md section 4 C04"),
    "C05": dict(
        text="Static flow/term rules: every row list written to a main/first-pass/second-pass file is the result of the "
             "one-per-query filter (per output mode, by constant-propagating the mode through the coordinator); the filter "
             "is groupby(queryId) over sort(queryId asc) over sort(confidence desc) taking the first; every groupby over an "
             "explicit sort uses the same key; the per-query winner is ARGMAX(confidence) with None default over all "
             "candidates; seeds are TOPK(score, count, desc) over all peaks; 'best' mode sorts by query id. Also: in 'best' mode a single-pass record is left out iff its query id is among the joined records' query ids; no single-use iterator of candidates is consumed before the ranking. Round 3: one parallel task per query (as C10.6); both strands' seeds reach the selector (as C11.7). Round 4: the top-count seeds are chosen once over the correlations of all references and both strands (C05.9). Round 6: no coordinator list is extended in place under a second name and read again under the first (C05.10, as C08.12); the groupby rule covers the row-level modules. Round 7: the per-correlation pre-selection keeps the highest peaks (C05.11, as C16.1); every selected seed is refined (C05.12); a ranking is not sorted again by another key. Round 8: a Peak stores its position and score unconverted (C05.13, as C16.8); the refinement of a selected seed is asked of that seed's own correlation at that seed's own position (C05.12 :own-peak). Round 9: output files are created with mode 'w' (C05.14); each reader call is restricted by the ids of its own kind (C05.15). Round 10: the seed selector is built from --peaksCount (C05.16); mode files hold their own pass (C05.17, as C08.2); the worker gives a query up only when no seed was selected (C05.18). Round 11: the references are consumed whole - takewhile / islice over them is reported (C05.9); an additional file that is the main output stream is reported (C05.14).",
        note="'Exactly one record per aligned query in best mode' and tie behaviour are declined.",
        tech="static analysis: source->sanitiser->sink flow per mode (R-FLOW) + order-operator normal forms (R-TERM)",
        ref="DESIGN.md section 4 C05"),
    "C07": dict(
        text="Static error-discipline rules on everything reachable from Program.__init__/run and on the XMAP reader: unpacked "
             "zip(*xs) needs a dominating non-emptiness guard, apply(...).tolist() in the readers needs an .empty guard, "
             "identity-free reductions need default=/initial= or a guard, the Optional worker result is None-tested before "
             "dereference, the too-long-query early return dominates the 'valid' correlations. Also: argpartition under k < len, empty-row filter, row-header coordinates are exact label coordinates (list.index lookups), additional file names are built by a total function (os.path.splitext). Round 3: no set over a class with __eq__ but no __hash__; positive join-score denominators (as C14.1). Round 4: no array or table survives from one molecule to the next (C07.G13); attribute reads under an isinstance guard exist on every guarded class (C07.G14, contradiction rule). Round 5: the cross-correlation of a reference window is computed only for a non-empty window vector (C07.G15; defect F6, fixed in f18f884). Round 6: the result of groupby().apply() is not iterated without an .empty guard; numpy.convolve / correlate only over vectors known non-empty. Withdrawn after the cross-property audit: C07.G13 (persistent state as a cause of aborts - a run-time matter; C09.3 / C10.1 decide persistent state). Round 7: the pool size never shrinks to 0 with the number of molecules (C07.G18); a correlation is divided only by the same correlation of vectors of the same lengths (C07.G19); negative kth accepted in G7. All checks: an unmodelled decorator on a function or class of src/ or sv/ gives ANALYSIS-ERROR. Round 8: the command-line options keep the type / choices / nargs / action of the pinned interface (C07.G20): an option that parses to another type makes a legitimate value abort or mean something else. Round 9: a row's molecule is looked up by id in the whole query list (C07.G21, as C10.2); the row lists of resolve hold rows only (C07.G22). Round 10: directories are created with exist_ok=True (C07.G23); a None-default constructor field that is used as a number is bound to a number at every construction site (C07.G24; defect F7, fixed in ec16595). Round 11: a reader that rewinds after sniffing rewinds before it when a handler keeps the handle (G25; fix F10); a bare nargs='?' flag yields const (G26; fix F11); pop loops test emptiness in their own condition (G27; fix F13); header query coordinates are looked up in the label list on the forward strand only (G28); a joined record names its parts' maps (G29). Round 12: no next(<iterator>) without a default in a -D message handler - StopIteration out of a task ends the result stream silently (G30; fix F14).",
        note="Hand-written summaries of which external calls raise on empty input (listed in evidence assumptions); a frozen "
             "exception table of named lookups with reasons. General exception freedom is declined.",
        tech="static analysis: idiom table (R-GUARD) judged on enumerated paths with guard facts; call-graph reachability",
        ref="DESIGN.md section 4 C07"),
    "C08": dict(
        text="Static mode-specialisation rules: every declared --outputMode choice is handled and returns rows explicitly; after "
             "constant-propagating the mode, main(all)==main(joined), _1(all)==main(separate), _2(all)==_1(separate) as terms; "
             "file numbers and the <stem>_<n><ext> name; AlignedRest True exactly for second-pass rows; join eligibility = "
             "same orientation, same reference, gap <= maxDifference (inclusive) wired to --maxDifference; resolve consumes "
             "every group member exactly once; the joined row is conflict resolution of one segment of each part with "
             "the earlier part on the left and identity fields of the first part; nothing is carried over into it that was not resolved there (C08.6); every segment of both parts must reach it (C08.10, the structural necessary condition of 'joined == union when the union is valid': violated by the pinned code, listed as known finding K1 - KNOWN-FINDING line, exit 0). Also: resolve receives exactly the reported first-pass ++ second-pass lists; saveAdditionalOutput writes exactly the rows it is given (no per-query filter). Round 3: the join returns a new record, leaves its parts untouched and holds only the two resolved segments. Round 5: no branch on a whole-run row list (C08.11); no in-place change of an aliased row list (C08.12). Round 6: the second pass re-aligns against the references as received (C08.13). Round 7: a record keeps the resolver's segments in the resolver's order (C08.14). Round 8: every path of saveAdditionalOutput writes its file (C08.8 :always-written): a file left by an earlier run under the same name otherwise contradicts the main file beside it. Round 9: the join compares label coordinates, not label numbers (C08.15); second-pass fragments are aligned as cut (C08.16); a group is never appended as one element. Round 10: an additional file name built by str.replace on the output name is reported. Round 11: the AlignedRest column is read from each record (C08.3); records are not altered in place between the worker and the join (C08.17); the additional file is never the main stream (C08.2). Round 12: no name read in the group loop of AlignmentResults.resolve is bound only on some paths of the same iteration (C08.18).",
        note="Byte equality of files across runs is declined; of 'union valid => joined == union' only the necessary condition C08.10 (no segment of a part is dropped) is decided, not the value-level equality.",
        tech="static analysis: constant propagation of the mode through enumerated paths (R-PATH), term equality of mode outputs (R-TERM), exactly-one-consume (R-PATH)",
        ref="DESIGN.md section 4 C08"),
    "C09": dict(
        text="Static effect rules on everything reachable from the worker and from Program.run: the parallel map is an "
             "order-preserving p_tqdm entry point and no unordered construct, nondeterministic API or set construction is "
             "on the output path; attributes of long-lived objects written in worker-reachable code (today exactly "
             "AlignerEngine.iteration) and the fields they taint (AlignedPair.source) are read only by __repr__/__hash__/"
             "copy constructors; --cpus reaches only num_cpus=; main-file rows pass AlignmentResults.create; shared "
             "OpticalMaps are frozen and never mutated in worker-reachable code. Positive fixtures keep the zero-count rules honest. Round 3: module-level random-generator objects count as nondeterministic state; the task set does not depend on --cpus. Round 4: worker-side code writes nothing to standard output (C09.8). Round 5: output files are created with mode 'w' (C09.9). Round 6: a mutable default argument changed in place and relied on by some caller is worker-persistent state; message handlers are not on the result path; a set that is only filled and asked is order-free. Round 7: memoised methods with an incomplete key (functools.lru_cache / cache) and hand-written dict memos whose key leaves out an input are reported; a memo whose key covers every input is not state. Round 10: class-level attributes written in worker-reachable code are worker-persistent state; the progress bar is not sent to stdout. Round 11: the file-naming rule listed here excludes the stream construct (same bytes on every run).",
        note="One knowingly conservative rule: any read-back of per-process state is reported even if it is a pure memo. Byte "
             "identity of real runs (pickling, float summation order in numpy/scipy) is declined.",
        tech="static analysis: effect summaries over the call graph, field-sensitive taint of worker-persistent state, who-may-call (R-EFFECT)",
        ref="DESIGN.md section 4 C09"),
    "C10": dict(
        text="Static rules: no cross-query state (the C09.3/C09.6 analyses plus no run-time write to module/class-level "
             "objects on the run path); the second pass and both pair parsers look maps up by the matching molecule id, "
             "never by position; readReferences/readQueries receive the matching file and id list, the reader filters and "
             "groups on one column with the filter before grouping; label rows are sorted while reading. Also: no single-use iterator (generator expression, map/filter/zip/itertools object, Iterator-typed parameter) is read twice anywhere in src/ and sv/. Round 3: every parallel task is (references as received, one query); the second pass hands every row the whole query list. Round 4: no early exit from the loops over row groups (C10.7); no row-changing pandas operation in the reader chain (C10.8). Round 5: every return path of execute applies the aligned-pairs test (C10.9); no branch on a whole-run row list (C10.10). Round 6: every path of a map lookup is judged (a memo keyed by id alone shared by reference and query maps is reported); the second pass sees all references (C10.11); mutable defaults; the iterator rule covers the modules where one iterator spans several molecules or references. Round 7: no lazily evaluated closure over a loop / comprehension variable is kept beyond its iteration (C10.12); read_csv is called without row-dropping keywords (header=, skiprows=, nrows=, ...); memo keys as C09.3. Round 8: in 'best' mode a query's record is chosen by its own id alone (C10.13, as C05.6); a reader method handed to a helper as a value is judged with the file and ids it is applied to (C10.3). Round 9: no binary search over the query list; no column of the table replaced by a Series without the frame's index. Round 10: `rows or other` on a whole-run list is the same run-global decision; an emptiness test whose empty outcome equals the general outcome for [] is not. Round 11: no list is changed inside the loop over it (C10.14); a record's ids are not rewritten (C10.15); a map looked up at a computed position is a lookup by position (C10.2).",
        note="Order-insensitivity of tie-breaking among exactly equal scores and equality of restricted vs full runs are declined.",
        tech="static analysis: effect/taint analysis (R-EFFECT), selection-predicate normal forms (R-TERM), argument/role lint (R-ROLE)",
        ref="DESIGN.md section 4 C10"),
    "C11": dict(
        text="Static strand-sibling agreement: label numbering 1+shift ascending vs len+shift descending with coordinates mirrored "
             "about length-1; the chainer's join score is strand independent (query distance = current start - previous end on both strands, since mirrored coordinates ascend); the row header exchanges query "
             "start/end on '-'; the reverse vector is the complete reversal of the forward query vector (reference never "
             "reversed); both strands go through getInitialAlignment with identical arguments and are offered independently; "
             "the strand flag is carried unchanged through refine, pairing, segments and the result row. Also: label positions are ordered by coordinate only (no order=True on PositionWithSiteId); on every path of the seed generator each strand is offered by the same rule from its own correlation only; trim formulae. Round 3: label rows selected by channel (as C17.2); the requested window reaches the vectoriser unchanged; role lint over optical_map.py. Round 4: candidates ordered by the strand-symmetric peak score on every return path of the selection (C11.9). Round 5: comparators by coordinate (C11.10); no strand-dependent tie-break between equally confident candidates (C11.11). Round 6: unpaired labels are found by membership, not label-number arithmetic (C11.12); no pre-test on label numbers in front of the overlap test (C11.13); Orientation is the strand flag (C11.14). Round 7: a segment's aligned pairs are not ordered by label number and the chainer's pre-order key does not read the strand (C11.15). Round 8: a Peak stores position and score unconverted on both strands (C11.16, as C16.8). Round 9: nothing is padded or cut between vectorisation and blur (C11.17, as C16.6); conflict resolution removes positions by identity (C11.18, as C15.1). Round 10: a join is refused on coordinates only (C11.19, as C14.2). Round 11: header coordinates of a '-' record are never looked up as label coordinates (C11.20); every query reaches the aligner trimmed (C11.21). Round 12: the query vector of both correlations is vectorised without a window (C11.22).",
        note="The end-to-end symmetry (same pairs renumbered, same confidence) additionally needs binning symmetry and identical "
             "floating-point peaks; declined.",
        tech="static analysis: mirror-symmetry of sibling branches as term normal forms (R-TERM), call-site argument equality",
        ref="DESIGN.md section 4 C11"),
    "C12": dict(
        text="Static term/flow rules on AlignerEngine.align: reference window {start-d <= x <= end+d} and candidate window "
             "{adj-d <= q <= adj+d} are closed intervals (recognised from takewhile/dropwhile or comprehension forms); offset = "
             "q - (r - seed); the unpaired lists are complements by siteId over the same two position lists against the "
             "de-duplicated pairs that are returned; result = sorted(pairs + unpaired); label numbering per strand; "
             "de-duplication shape. Round 3: bisect-based windows; absolutePosition of the three position kinds and the ordering on it. Round 5: position constructors store coordinates and offsets unconverted (C12.7). Round 6: unpaired query labels enumerated by label-number arithmetic are reported (C12.3 site-id-order); helpers read in place when moved or renamed. Round 8: what is stored in a Peak or a position object is not clipped (max / min / clip count as conversions); the tie-keeping filter form of the de-duplication is reported (C12.5). Round 9: no condition on a reference label in front of the candidate scan that compares reference coordinates with seed-relative query coordinates (C12.1). Round 11: the de-duplication key is the exact |offset| (C12.8); the candidate scan is left only at the window's end (C12.9).",
        note="'Strictly mutual nearest neighbours are always paired' and order preservation are claims about the greedy selection on "
             "arbitrary geometries; declined.",
        tech="static analysis: interval normal forms of window predicates (R-TERM), def-use identity of list terms (R-FLOW)",
        ref="DESIGN.md section 4 C12"),
    "C13": dict(
        text="Static term rules on the segment builder with operands located by provenance (factory parameter -> attribute -> "
             "builder argument -> builder attribute): constructor rejects minScore <= 0; break iff running <= 0 or running <= "
             "max - T; accept iff running > max (strict); emit iff max >= minScore; every segment is the step-less slice "
             "input[start:cursor] built via AlignmentSegment.create; both cursors restart just past the breaking position "
             "and the running score at 0; empty-segment fallback and final emission; the scan visits every position once. Also: a threshold stored in altered form (e.g. `x or inf`) is reported. Round 3: segment score = exact sum of members (as C04.2); the factory returns the builder's list unchanged. Round 5: the builder gets --minScore / --breakSegmentThreshold unchanged and unexchanged (C13.8). Round 6: the segment-building classes keep no class-level / module-level state written at run time (C13.9); the borrowed ownership and wiring rules are limited to the segment builder's own constructs. Round 7: validation moved to __post_init__ is followed. Round 11: a break leaves an empty candidate behind on every path (C13.10; fix F8); every added score is followed by the break test and every continuing step by the accept test (C13.11).",
        note="Maximality ('cannot be extended to the right') is a property of the scan as an algorithm and is declined.",
        tech="static analysis: comparison normal forms (values touched only through comparisons) with provenance-located operands (R-TERM)",
        ref="DESIGN.md section 4 C13"),
    "C14": dict(
        text="Static rules on the chainer: abstract interpretation of the join score over the sign domain shows it non-positive "
             "(both scoring variants) under multiplier >= 0, constant folding shows exactly 0 for a contiguous join; -inf is "
             "returned iff min(refLen+2refDist, qLen+2qDist) < 0; reference and query distance are current start - previous end on both strands; the DP "
             "re-initialises to a finite value, records predecessors only on strict improvement over a proper prefix, adds "
             "the own score once, back-tracks until None and passes empty segments through via complementary predicates. Also: early returns of the chainer keep all empty segments; the scorer writes no state while scoring and never uses id(). Round 3: the join score is judged per return path (a finite score only after the overlap condition was refuted); the pre-order key increases with all four coordinates on both strands. The DP step is judged on the path summary of one outer iteration (0, 1, 2 predecessors explored; the values left in cumulated[i] / previous[i] compared with the recurrence on the same test outcomes), so accumulators may be locals. Round 4: no early return hands back un-chained segments unless at most one is non-empty; the chainer keeps nothing between calls (C14.7). Round 5: the chainer's scorer is built from --segmentJoinMultiplier / --sequentialityScore in that order (C14.8). Round 6: the borrowed wiring and state rules are limited to the chainer's own constructs; -inf is recognised through import aliases and module constants; the table-filling loop is also found in a new helper of the same shape. Round 7: the strand-dependent form of the pre-order key is a construct of its own (C14.6). Round 8: --sequentialityScore / --segmentJoinMultiplier keep the pinned option types (C14.9). Round 11: (key, segment) tuples are never sorted without a key function (C14.10). Round 12: the chain is never read out of a set (C14.11).",
        note="Assumes segmentJoinMultiplier >= 0 (not validated by args.py: observation O6). Optimality over all subsets is declined.",
        tech="static analysis: sign abstract interpretation (R-SIGN) + term normal forms + path-summary rule for the DP step (explorer over the loop body, heap values compared with the recurrence)",
        ref="DESIGN.md section 4 C14"),
    "C15": dict(
        text="Static provenance rules: every value returned by any resolveConflict implementation is the left/right segment or "
             "`segment - x` with x taken from that side's own conflicting sub-segment; __sub__ and slice return "
             "AlignmentSegment.create over a sub-sequence of self.positions (no element construction or concatenation) with "
             "the same peak; conflicting sub-segments are slices of their own segment over [later.start, earlier.end]; the "
             "earlier chain member is the left segment; pairwise pass as C01.3. Also: the slice window predicates; each sub-run is cut at the index from its own index table at one shared merge index; the conflict test contains the one necessary disjunct other.start <= self.end. Round 3: definitional clause for the position comparators and PositionWithSiteId ordering; reference-/query-label characteristics agree under reference<->query (sibling agreement); subtracting a segment removes all its positions; interior cuts only under equal label counts. Round 4: cut axis = reference labels iff left peak position > right peak position, strand-free (C15.5 :axis); strict accept test (C15.10, as C13.1); satisfiable isinstance tests for the label getters (C15.11). Round 6: label-table membership (C15.8: every pair and every unpaired label of the side; a test on the scored wrapper is dead), the no-conflict path of checkForConflicts is taken only when the overlap test said no (C15.6), a filter in place of dropwhile in the slice window (C15.4), only neighbours can overlap (C15.12, as C14.2). Round 7: a segment's start / end are its first / last aligned pair in list order (C15.13). Round 8: no early exit from the pairwise pass on the look of a segment (C15.2); the index recorded for a label of a label table is its index in segment.positions, not its ordinal in the table (C15.8 :indexes, judged over two iterations). Round 9: no short cut in the overlap test (C15.6); a segment's start / end is its first / last aligned pair, not its first / last position (C15.13). Round 10: the chainer asks the join score of every predecessor (C15.14, as C14.4). Round 11: a segment's own lists are not altered in place (C15.15). Round 12: inherited comparators that delegate are judged as the subclass's comparator (C15.7).",
        note="Re-ordering operators (sorted/reversed) cannot be judged statically and give ANALYSIS-ERROR. 'No shared label "
             "afterwards' and 'pairs outside the overlap are kept' are run-time geometry; declined.",
        tech="static analysis: provenance closure of returned values under shrinking operators (R-EFFECT), role agreement left/right",
        ref="DESIGN.md section 4 C15"),
    "C16": dict(
        text="Static rules for the seed/peak selection and units: selectPeaks is TOPK(peak.score, count, desc) over all peaks; "
             "createPeaks keeps the indices of the peaksCount largest heights under the peaksCount<size guard and indexes "
             "positions, heights and both bases with one index vector; positions/bases are converted with the correlation's own "
             "resolution and window start; getInitialAlignment/refine pass the resolution of the one generator that built both "
             "vectors, refine offsets by its window start; the bin-centre formula. Also: the scanning loop of vectorisePositions visits every label and uses half-open bins (skip iff position < window start, advance while position >= window start + resolution). Round 3: getSequence passes the requested window unchanged; role lint over the correlation modules. Round 5: both strands correlated for every reference (C16.5); the bit vector is exactly blur(vectorisePositions(...)) (C16.6). Round 6: blur keeps the length - the OR of the shifted copies is cut to len(vector), every shift 1..radius in both directions, fill 0 (C16.7). Round 8: a Peak stores the position and the score handed to its constructor, unconverted (C16.8). Round 9: label positions are sorted while reading (C16.9, as C17.1); the seeds are chosen once over all references (C16.10, as C05.9). Round 10: both strands are correlated with the same settings (C16.11); the worker gives up only without seeds (C16.12). Round 11: a query is correlated only when its whole length fits the reference (C16.13, as C07.G5). Round 12: the second pass receives the reference list as the first pass did (C16.14, as C08.13).",
        note="Exactness of vectorisePositions/blur as a whole for all (start, end, resolution, radius) is arithmetic on run-time values; declined (only the shape of the scanning loop is decided).",
        tech="static analysis: order-operator normal forms (R-TERM), sibling agreement across zipped arrays, unit flow (R-FLOW)",
        ref="DESIGN.md section 4 C16"),
    "C17": dict(
        text="Static rules on the CMAP reader and trimming: positions pass a sort; label rows and the end marker are selected by "
             "complementary tests on LabelChannel; length = int(end marker Position); filter, grouping and id read-back use one "
             "column and every used column is requested; None (label-less) molecules are dropped and an empty frame gives []; "
             "queries are trimmed and references are not; trim length/positions/id formulae. Also: no narrowing conversion of coordinates in the reader chain; reading a file writes no state of the reader object. Round 3: molecules built from zipped sequences (paired by position, not by id) are reported. Round 4: the table reaches the per-molecule parser row for row - no drop_duplicates / reindex / dropna / head ... in the reader chain (C17.9). Round 6: dropna on the series of parsed molecules is not a row operation on the table; anchors of the reader are located by role. Round 7: a memoised trim must be keyed by the label list (C17.5); read_csv keywords (C17.9). Round 8: columns are selected by the names of the '#h' line - read_csv(names=<header tokens>, usecols=<requested names>), never by position with the requested names attached afterwards (C17.10). Round 9: the field separator is the tab (C17.10); the id filter - any Iterable - is read once (C17.11). Round 11: a path of the reader that returns the per-molecule parser's answer for ungrouped rows is reported (C17.3).",
        note="pandas parsing behaviour (decimal coordinates, extra columns) and idempotence as a run-time fact are declined.",
        tech="static analysis: source->sanitiser flow (R-FLOW), complementary-predicate and column-table agreement (R-TABLE), term normal forms",
        ref="DESIGN.md section 4 C17"),
    "C18": dict(
        text="Static format agreement between XmapReader.writeAlignments and readAlignments/pair parsers: column tables, "
             "separators, comment/header prefixes, header=False, the '(ref,qry)' Alignment grammar with the reader's strip/split "
             "literals and unpack order, attribute landing of every column, zero-record guard. Also: without id filters every record is parsed in file order; pair coordinates are looked up in the map with the record's id; ids, coordinates and lengths are converted by plain int() truncation; every read parses the file it is given (no remembered table). Round 3: the wired-up reader's pair parser holds the maps that are aligned (trimmed queries). Round 4: no narrow dtype anywhere in the XMAP reader chain (C18.10). Round 5: pair coordinates are the maps' own positions (C18.11); pairs come back in file order on both strands (C18.12). Round 6: map lookups judged on every path, shared id-keyed cache reported (C18.6); Orientation provenance (C18.1). Round 7: the XMAP reader chain keeps nothing from one read to the next (C18.13: no mutable default changed in place, no class / module writes). Round 8: every normal end of Program.run has written the output file, so a run without records still has its header lines (C18.14); a field chosen among two columns by size (sorted / min / max) is reported (C18.7); the frame is not moved after its index was set (C18.1); the Confidence format keeps two decimals. Round 9: a joined record lists the pairs of its resolved segments (C18.15, as C08.6); label numbers are read back without offset (C18.16). Round 10: every file has a name of its own (C18.17); standard output carries only the XMAP (C18.18). Round 11: a map looked up at a computed position is reported (C18.6); an additional XMAP written into the main stream is reported (C18.17).",
        note="The value round-trip as a whole (two decimals of the confidence, coordinate lookup values) is declined.",
        tech="static analysis: writer/reader table agreement (R-TABLE) over normalised terms",
        ref="DESIGN.md section 4 C18"),
    "C19": dict(
        text="Static rules on the comparer: compared / first-only / second-only rows are selected by complementary membership "
             "tests over two dictionaries built by one function keyed by (queryId, referenceId); wrapper constructors, enum "
             "members, slots and counters agree on their 1/2 roles; the four counters partition the row kinds and only-rows "
             "carry identity 0; side-2 difference/coverage are the side-1 computations with arguments exchanged; coverage "
             "formula with 1 for an empty alignment. Also: counters derived from itertools.groupby need input sorted by that key. Round 3: an early return of compare is accepted only when both sets are empty. Round 4: the sets handed to the comparer are the two files' alignments as read (C19.4). Round 6: the comparer's helpers are located by role (names free to change). Round 8: the identity of two pair lists is a ratio of like counts - SequenceMatcher(None, pairs1, pairs2).ratio(); distinct pairs over list entries is reported (C19.5). Round 9: a compared row with a constant identity needs an emptiness guard (C19.5); comparing does not alter the alignments compared (C19.6). Round 11: no mutable default is filled or handed out in the comparer (C19.7).",
        note="Numeric bounds in [0,1] and reflexivity (SequenceMatcher.ratio, duplicated pairs) are value-level; declined.",
        tech="static analysis: complementary-predicate partition and symmetry under argument exchange as term equalities (R-TERM), role lint (R-ROLE)",
        ref="DESIGN.md section 4 C19"),
    "C20": dict(
        text="Static rules on the sv/ scripts: every path through one iteration of the clustering loop consumes the call exactly "
             "once (merge: count+1 and id appended under the (type,chromosome) guard with start<-min, stop<-max; or new cluster "
             "with count 1); both finders compute Length as reference gap minus query gap and label 'insertion' exactly when it "
             "is negative; producer record slots, consumer indices, header columns and the sort key agree. Also: a list key / type label chosen by a helper's conditional expression is followed into the helper. Round 3: every call reaches cluster_indels and every cluster the file (sorting only). Round 4 / mutation campaign: merges keep the ids of the cluster; clustering guarded by non-emptiness only; both dictionary lists clustered, every cluster line written; no module-level state in the sv scripts (C20.6). Round 5: the maps hold every label of the file (C20.7). Round 6: header line read through module constants. Round 7: read_csv keywords (C20.7). Round 8: a record is appended only where its coordinates were computed on every path of the current loop iteration (definite assignment, C20.5 :same-iteration). Round 9: every path of write_indel_file clusters both lists (C20.4). Round 10: reference and query maps are separate tables (C20.8). Round 11: the breakage pair recorded by the molecule finder is a pair of the joined record with its own index (C20.9; fix F9); the part walked is chosen by comparing first pairs (C20.10). Round 12: a breakage recorded under a membership test with the pair's index in the part is reported (C20.9).",
        note="Interval cover for unsorted input and Length averaging are declined.",
        tech="static analysis: exactly-one-consume path rule (R-PATH) + table agreement (R-TABLE) + term normal forms",
        ref="DESIGN.md section 4 C20"),
}

ROUND_13 = {
    "C02": " Round 13: an optional numeric parameter of the writer that no call site passes stands for its default (C02.2); the precision "
           "rule also reads class-level and module-level type tables of the reader modules (C02.6, as C17.6).",
    "C12": " Round 13: a recognised candidate window cut down by a constant-end slice from its low end is reported (C12.1); unpaired labels "
           "selected by membership of the label object are accepted when the label class is a dataclass whose equality compares siteId and "
           "reported when siteId is excluded from it (C12.3).",
    "C13": " Round 13: AlignmentSegment.create never withholds a non-empty run - on a path that builds no segment nothing but the emptiness "
           "of the run is assumed; create is judged as the builder calls it, optional arguments it never passes are at their default (C13.12, C13.6).",
    "C17": " Round 13: the precision rule also reads the statements outside function bodies - class attributes, module constants, parameter "
           "defaults - of the reader modules: a narrow float type there is reported, a narrow integer type alone is refused (C17.6).",
    "C18": " Round 13: the precision rule also reads class-level and module-level type tables of the XMAP reader chain (C18.10); an unused "
           "optional start of the XmapEntryID index stands for its default (C18.1, as C02.2).",
}
for _k, _v in ROUND_13.items():
    CHECKS[_k]["text"] += _v

NOT_APPLICABLE = {
    "C06": "exact placement of a noise-free copy is the numerical outcome of FFT cross-correlation, scipy.signal.find_peaks and "
           "bin arithmetic for all offsets/strands; no clause of it is visible in the shape of the code that is not already "
           "decided under C16 (units, top-N seeds), C12 (pairing window) and C11 (strand siblings) - static analysis cannot "
           "decide it and a proxy would claim it twice",
}


def main():
    props = [json.loads(l) for l in open(os.path.join(VERIF, "properties.jsonl"))]
    ids = [p["id"] for p in props]
    checks = []
    for pid in ids:
        if pid not in CHECKS:
            continue
        c = CHECKS[pid]
        checks.append({
            "property_id": pid,
            "quick_cmd": f"/venv/bin/python -m sa.check {pid} --tier quick",
            "thorough_cmd": f"/venv/bin/python -m sa.check {pid} --tier thorough",
            "evidence_file": f"/verif/evidence/{pid}.json",
            "replay_cmd_template": f"/venv/bin/python -m sa.check {pid} --replay {{path}}",
            "engine": "sa",
            "level_claimed": {"category": "other", "text": c["text"], "design_ref": c["ref"]},
            "level_note": COMMON_NOTE + c["note"],
            "technique": c["tech"],
        })
    na = []
    for pid in ids:
        if pid in CHECKS:
            continue
        na.append({"property_id": pid,
                   "reason": NOT_APPLICABLE.get(pid, "checker not built yet (build in progress; see DESIGN.md section 4 for the "
                                                     "structural clauses that will be claimed)")})
    m = {
        "version": 1,
        "setup_cmd": "/venv/bin/python -m compileall -q /verif/sa",
        "hooks": {
            "guard": "COMA_VERIF",
            "enable": "none - static analysis reads /repo's working tree; nothing is executed, so nothing is instrumented",
            "baseline_off_cmd": "cd /repo && /venv/bin/python -m pytest -ra -q -p no:cacheprovider --timeout=900 "
                                "--continue-on-collection-errors",
            "source_commits": [],
            "add_only": True,
        },
        "engines": [{
            "name": "sa", "path": "/verif/sa", "serves_properties": sorted(CHECKS),
            "kind_free_text": "repository-specific static analysis over ast: loader + annotation-driven type inference + call "
                              "graph + canonical term normaliser + bounded path explorer with a symbolic environment; rule "
                              "instances per property in sa/props; self-test on overlay variants in sa/selftest",
        }],
        "checks": checks,
        "notes": "All checks: exit 0 = every rule instance holds; exit 1 + 'VIOLATION property=<id> replay=<path>' = a recognised "
                 "construct deviates; exit 2 + 'ANALYSIS-ERROR ...' = anchor vanished / idiom not recognised (never a VIOLATION "
                 "line). Fourteen genuine defects were repaired in /repo with 'fix:' commits (F1-F14; F8-F14 were reported by the round-11 and round-12 sub-agents on the unchanged checkout); two more (K1: C08, join of "
                 "multi-segment records; K2: C01, a chain member emptied by conflict resolution shields its neighbours) are recorded "
                 "un-repaired as known findings: their checks print a KNOWN-FINDING line and exit 0 (see known_findings.json and "
                 "DESIGN.md section 5).",
        "not_applicable": na,
    }
    with open(os.path.join(VERIF, "MANIFEST.json"), "w") as f:
        json.dump(m, f, indent=1)
    print(f"MANIFEST.json: {len(checks)} checks, {len(na)} not applicable")


if __name__ == "__main__":
    main()

#!/venv/bin/python
"""Re-run every kept seeded change against its own property's check (in memory, through the loader overlay's sibling: a
scratch worktree per change under /tmp/vs, removed afterwards) and report the ones that are no longer reported.

    tools/recheck_seeded.py [--jobs 12]

Development aid only (the registered commands never use it): after an engine change this shows at once whether a seeded
change that used to be caught slipped through.
"""
import json
import os
import subprocess
import sys
from concurrent.futures import ThreadPoolExecutor

VERIF = os.path.dirname(os.path.dirname(os.path.abspath(__file__)))
PY = "/venv/bin/python"


def sh(cmd, cwd=None, env=None):
    e = dict(os.environ)
    if env:
        e.update(env)
    p = subprocess.run(cmd, shell=True, cwd=cwd, env=e, capture_output=True, text=True)
    return p.returncode, p.stdout + p.stderr


def one(name):
    d = os.path.join(VERIF, "seeded", name)
    meta = json.load(open(os.path.join(d, "meta.json")))
    prop = meta["property"]
    wt = f"/tmp/vs/rs-{name}"
    sh(f"git -C /repo worktree remove --force {wt}")
    rc, o = sh(f"git -C /repo worktree add -q --detach {wt} HEAD")
    if rc:
        return name, prop, "worktree-fail", o[-200:]
    try:
        rc, o = sh(f"git -C {wt} apply {d}/patch.diff")
        if rc:
            return name, prop, "apply-fail", o[-200:]
        rc, o = sh(f"{PY} -m sa.check {prop} --no-selftest", cwd=VERIF, env={"SA_REPO": wt, "SA_NO_EVIDENCE": "1"})
        first = next((l for l in o.splitlines() if "rule C" in l or "ANALYSIS-ERROR" in l), "")[:220]
        return name, prop, {0: "MISSED", 1: "reported", 2: "analysis-error"}.get(rc, str(rc)), first
    finally:
        sh(f"git -C /repo worktree remove --force {wt}")


def main():
    jobs = int(sys.argv[sys.argv.index("--jobs") + 1]) if "--jobs" in sys.argv else 12
    os.makedirs("/tmp/vs", exist_ok=True)
    names = sorted(n for n in os.listdir(os.path.join(VERIF, "seeded"))
                   if os.path.exists(os.path.join(VERIF, "seeded", n, "meta.json")))
    with ThreadPoolExecutor(max_workers=jobs) as ex:
        res = list(ex.map(one, names))
    bad = 0
    if "--update" in sys.argv:
        # record what the own property's check says today (development aid: the authoritative run of a kept change is the one
        # keep_many.py made on /repo itself; this keeps meta.json honest after the checks were strengthened)
        for name, prop, verdict, first in res:
            mp = os.path.join(VERIF, "seeded", name, "meta.json")
            m = json.load(open(mp))
            now = verdict == "reported"
            if m["checks"].get("own_property_detects") != now:
                m["checks"]["own_property_detects"] = now
                m["checks"].setdefault("history", []).append(
                    {"recheck": "tools/recheck_seeded.py (SA_REPO worktree)", "own_property": verdict, "first_report": first})
                json.dump(m, open(mp, "w"), indent=1)
    for name, prop, verdict, first in res:
        was = json.load(open(os.path.join(VERIF, "seeded", name, "meta.json")))["checks"].get("own_property_detects")
        flag = ""
        if verdict != "reported" and was:
            flag = "  <-- REGRESSION"
            bad += 1
        if verdict != "reported" or "-v" in sys.argv:
            print(f"{name:8s} {verdict:15s} was_detected={was}{flag}  {first}")
    print(len(res), "seeded changes,", sum(1 for r in res if r[2] == "reported"), "reported by their own property,", bad, "regressions")


if __name__ == "__main__":
    main()

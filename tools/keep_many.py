#!/venv/bin/python
"""Confirm and keep a whole round of seeded changes.

    tools/keep_many.py <root with <Cxx>/<letter>/{patch.diff,demo.py,meta.json}> [--jobs 10]

Phase 1 (parallel, scratch worktrees under /tmp/vs): tools/verify_seeded.py on every directory - patch applies, the unedited
suite passes, the demonstration fails with the change and passes without it.
Phase 2 (sequential, on /repo itself as the brief prescribes): git -C /repo apply <patch>; every registered quick command;
git -C /repo checkout -- . - and the change is kept under /verif/seeded/<Cxx>-<letter>/ with what fired.
"""
import json
import os
import re
import shutil
import subprocess
import sys
from concurrent.futures import ThreadPoolExecutor

VERIF = os.path.dirname(os.path.dirname(os.path.abspath(__file__)))
PY = "/venv/bin/python"


def sh(cmd, cwd=None, env=None, timeout=1800):
    e = dict(os.environ)
    if env:
        e.update(env)
    p = subprocess.run(cmd, shell=True, cwd=cwd, env=e, capture_output=True, text=True, timeout=timeout)
    return p.returncode, p.stdout + p.stderr


def phase1(d):
    rc, o = sh(f"{PY} {VERIF}/tools/verify_seeded.py {d}")
    try:
        return d, json.loads(o[o.index("{"):])
    except Exception:
        return d, {"error": o[-400:], "confirmed": False}


def main():
    root = os.path.abspath(sys.argv[1])
    jobs = int(sys.argv[sys.argv.index("--jobs") + 1]) if "--jobs" in sys.argv else 10
    dirs = sorted(os.path.dirname(p) for p in
                  subprocess.run(f"ls {root}/*/*/patch.diff", shell=True, capture_output=True, text=True).stdout.split())
    dirs = [d for d in dirs if os.path.exists(os.path.join(d, "demo.py"))]
    print(len(dirs), "changes")
    with ThreadPoolExecutor(max_workers=jobs) as ex:
        results = dict(ex.map(phase1, dirs))
    manifest = json.load(open(os.path.join(VERIF, "MANIFEST.json")))
    assert sh("git -C /repo status --short")[1].strip() == "", "/repo not clean"
    for d in dirs:
        res = results[d]
        prop, letter = d.rstrip("/").split("/")[-2:]
        name = f"{prop}-{letter}"
        if not res.get("confirmed"):
            print(name, "NOT CONFIRMED", {k: res.get(k) for k in ("tests_ok", "demo_with_change_rc", "demo_without_change_rc", "error")})
            continue
        patch = os.path.join(d, "patch.diff")
        rc0, o0 = sh(f"git -C /repo apply {patch}")
        firing = {}
        try:
            if rc0:
                print(name, "cannot apply to /repo", o0[-200:])
                continue
            for c in manifest["checks"]:
                rc, o = sh(c["quick_cmd"], cwd=VERIF, env={"SA_NO_EVIDENCE": "1"})
                if rc != 0:
                    rules = sorted(set(re.findall(r"rule (C\d+\.[A-Za-z0-9]+)", o)))
                    firing[c["property_id"]] = {"exit": rc, "rules": rules,
                                                "first_report": next((l for l in o.splitlines() if "rule C" in l or "ANALYSIS-ERROR" in l), "")[:300]}
        finally:
            sh("git -C /repo checkout -- .")
        assert sh("git -C /repo status --short")[1].strip() == "", "/repo not clean after undo"
        dst = os.path.join(VERIF, "seeded", name)
        os.makedirs(dst, exist_ok=True)
        shutil.copy(patch, dst)
        shutil.copy(os.path.join(d, "demo.py"), dst)
        try:
            am = json.load(open(os.path.join(d, "meta.json")))
        except Exception:
            am = {}
        meta = {"property": prop, "summary": am.get("summary", ""), "needs_to_manifest": am.get("needs_to_manifest", ""),
                "files": am.get("files", []), "origin": "independent sub-agent given only the property text and a scratch worktree",
                "confirmed_by": {"procedure": "fresh worktree of /repo HEAD: git apply patch.diff; pytest (165 passed); demo.py must fail; "
                                              "git checkout -- .; demo.py must pass; then git -C /repo apply patch.diff, every registered "
                                              "quick_cmd, git -C /repo checkout -- .",
                                 "tests_passed_with_change": res.get("tests_passed"), "demo_rc_with_change": res.get("demo_with_change_rc"),
                                 "demo_rc_without_change": res.get("demo_without_change_rc"),
                                 "demo_tail_with_change": res.get("demo_with_change_tail", "")[-300:]},
                "checks": {"own_property_detects": firing.get(prop, {}).get("exit") == 1, "firing": firing}}
        json.dump(meta, open(os.path.join(dst, "meta.json"), "w"), indent=1)
        print(name, "kept; own:", meta["checks"]["own_property_detects"], {k: v["rules"] or v["exit"] for k, v in firing.items()})


if __name__ == "__main__":
    main()

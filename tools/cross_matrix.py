#!/venv/bin/python
"""Every kept seeded change against every property's check: which checks report which change.

    tools/cross_matrix.py [--jobs 12]  ->  seeded/cross_matrix.json  {change: {property: {"exit": rc, "rules": [...], "first": text}}}

Development aid (the registered commands never use it). The matrix is what DESIGN.md section 9 is written from, and it is the
list that was read through for reports by a property the change does *not* break (a false alarm in waiting): every entry whose
property is not the change's own was either confirmed as a real consequence for that property or the rule was narrowed.
Scratch worktrees live under /tmp/vs and are removed as soon as a change has been run.
"""
import json
import os
import re
import subprocess
import sys
from concurrent.futures import ThreadPoolExecutor

VERIF = os.path.dirname(os.path.dirname(os.path.abspath(__file__)))
PY = "/venv/bin/python"
PROPS = ["C%02d" % i for i in range(1, 21) if i != 6]


def sh(cmd, cwd=None, env=None):
    e = dict(os.environ)
    if env:
        e.update(env)
    p = subprocess.run(cmd, shell=True, cwd=cwd, env=e, capture_output=True, text=True)
    return p.returncode, p.stdout + p.stderr


def one(name):
    d = os.path.join(VERIF, "seeded", name)
    wt = f"/tmp/vs/cm-{name}"
    sh(f"git -C /repo worktree remove --force {wt}")
    rc, o = sh(f"git -C /repo worktree add -q --detach {wt} HEAD")
    if rc:
        return name, {"error": "worktree: " + o[-200:]}
    out = {}
    try:
        rc, o = sh(f"git -C {wt} apply {d}/patch.diff")
        if rc:
            return name, {"error": "apply: " + o[-200:]}
        for prop in PROPS:
            rc, o = sh(f"{PY} -m sa.check {prop} --no-selftest", cwd=VERIF, env={"SA_REPO": wt, "SA_NO_EVIDENCE": "1"})
            if rc == 0:
                continue
            rules = sorted(set(re.findall(r": rule (C\d\d\.[A-Z]?\d+)", o)))
            first = next((l for l in o.splitlines() if ": rule C" in l or "ANALYSIS-ERROR" in l), "")[:300]
            out[prop] = {"exit": rc, "rules": rules, "first": first}
        return name, out
    finally:
        sh(f"git -C /repo worktree remove --force {wt}")


def main():
    jobs = int(sys.argv[sys.argv.index("--jobs") + 1]) if "--jobs" in sys.argv else 12
    os.makedirs("/tmp/vs", exist_ok=True)
    names = sorted(n for n in os.listdir(os.path.join(VERIF, "seeded"))
                   if os.path.exists(os.path.join(VERIF, "seeded", n, "meta.json")))
    if "--only" in sys.argv:
        pat = sys.argv[sys.argv.index("--only") + 1]
        names = [n for n in names if re.search(pat, n)]
    with ThreadPoolExecutor(max_workers=jobs) as ex:
        res = dict(ex.map(one, names))
    path = os.path.join(VERIF, "seeded", "cross_matrix.json")
    old = json.load(open(path)) if os.path.exists(path) and "--only" in sys.argv else {}
    old.update(res)
    json.dump(old, open(path, "w"), indent=1, sort_keys=True)
    own = sum(1 for n, r in old.items() if r.get(n.split("-")[0], {}).get("exit") == 1)
    err = sum(1 for n, r in old.items() if r.get(n.split("-")[0], {}).get("exit") == 2)
    cross = sum(1 for n, r in old.items() for p, v in r.items() if p != n.split("-")[0] and isinstance(v, dict) and v.get("exit") == 1)
    print(f"{len(old)} changes: {own} reported by their own property, {own and err} end as ANALYSIS-ERROR there, "
          f"{len(old) - own - err} missed; {cross} reports by other properties")


if __name__ == "__main__":
    main()
